#!/bin/sh
# Runs every seeded change through the quick command of the property it breaks (C10: simhist + process facet only,
# unless MATRIX_FULL=1) and writes seeded/MATRIX.json. Applies each patch to /repo and reverts it afterwards.
HERE="$(cd "$(dirname "$0")/.." && pwd)"
cd "$HERE" || exit 9
export VERIF_NO_MINIMISE=1   # detection only: skip the delta-debugging of every replay
OUT=$HERE/seeded/MATRIX${MATRIX_ONLY:+-$MATRIX_ONLY}.json   # MATRIX_ONLY=C10|C12 restricts the run to one property
echo "[" > $OUT.tmp; FIRST=1
for d in $HERE/seeded/${MATRIX_ONLY:-C1}*/; do
  n=$(basename $d); p=${n%%-*}
  if [ "$p" = "C10" ] && [ "$MATRIX_FULL" != "1" ]; then export VERIF_SKIP=miri; ONLY="VERIF_SKIP_MIRI=1"; else ONLY=""; fi
  START=$(date +%s)
  if [ "$p" = "C10" ] && [ "$MATRIX_FULL" != "1" ]; then
    VERIF_SKIP_MIRI=1 tools/try_mutant.sh $d/patch.diff $p quick > /tmp/matrix_one.$$.out 2>&1; RC=$?
  else
    tools/try_mutant.sh $d/patch.diff $p quick > /tmp/matrix_one.$$.out 2>&1; RC=$?
  fi
  END=$(date +%s)
  CLS=$(grep -o '"class":"[a-z_]*"' /tmp/matrix_one.$$.out | sort | uniq -c | sort -rn | awk '{print $2}' | tr '\n' ' ' | sed 's/"class"://g; s/"//g')
  [ $FIRST = 1 ] || echo "," >> $OUT.tmp; FIRST=0
  printf '{"seeded":"%s","check_exit":%s,"violation_classes":"%s","seconds":%s}' "$n" "$RC" "$CLS" "$((END-START))" >> $OUT.tmp
  echo "$n exit=$RC classes=$CLS"
done
echo "]" >> $OUT.tmp; mv $OUT.tmp $OUT
# the unchanged tree afterwards
git -C "${VERIF_REPO:-/repo}" status --short
