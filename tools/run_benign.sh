#!/bin/sh
# Runs every behaviour-preserving change of seeded-benign/ through the quick commands of BOTH properties
# (C10 without the Miri engine unless MATRIX_FULL=1): each must end with exit 0. Writes seeded-benign/MATRIX.json.
HERE="$(cd "$(dirname "$0")/.." && pwd)"
cd "$HERE" || exit 9
OUT=$HERE/seeded-benign/MATRIX.json
echo "[" > $OUT.tmp; FIRST=1; BAD=0
for d in $HERE/seeded-benign/C1*/; do
  n=$(basename $d)
  for p in C10 C12; do
    START=$(date +%s)
    if [ "$p" = "C10" ] && [ "$MATRIX_FULL" != "1" ]; then
      VERIF_SKIP_MIRI=1 tools/try_mutant.sh $d/patch.diff $p quick > /tmp/benign_one.$$.out 2>&1; RC=$?
    else
      tools/try_mutant.sh $d/patch.diff $p quick > /tmp/benign_one.$$.out 2>&1; RC=$?
    fi
    END=$(date +%s)
    [ $RC = 0 ] || { BAD=$((BAD+1)); tail -20 /tmp/benign_one.$$.out; }
    [ $FIRST = 1 ] || echo "," >> $OUT.tmp; FIRST=0
    printf '{"benign":"%s","property":"%s","check_exit":%s,"seconds":%s}' "$n" "$p" "$RC" "$((END-START))" >> $OUT.tmp
    echo "$n $p exit=$RC"
  done
done
rm -f /tmp/benign_one.$$.out
echo "]" >> $OUT.tmp; mv $OUT.tmp $OUT
echo "benign changes with an alarm or harness error: $BAD"
git -C "${VERIF_REPO:-/repo}" status --short
