#!/bin/sh
# usage: tools/confirm_mutant.sh <dir-with-patch.diff-and-demo_*.rs> <logfile>
# Confirms in a scratch worktree of /repo HEAD: patch applies + builds, unedited suite passes with it,
# demo fails with it and passes without it. Appends a JSON line to <logfile>.
D="$1"; LOG="$2"; WT="${WT:-/tmp/wt-confirm}"
export CARGO_NET_OFFLINE=true CARGO_TARGET_DIR=$WT/target
[ -d $WT ] || git -C /repo worktree add -q --detach $WT HEAD || exit 9
cd $WT && git checkout -q --detach $(git -C /repo rev-parse HEAD) && git checkout -- . && git clean -fdq -e target
NAME=$(basename "$D"); DEMO=$(ls "$D"/*.rs | head -1); DN=$(basename "$DEMO" .rs)
git apply "$D/patch.diff" || { echo "{\"name\":\"$NAME\",\"applies\":false}" >> "$LOG"; exit 1; }
cargo build --offline >$WT.build.log 2>&1; BUILD=$?
SUITE=$(cargo nextest run --workspace --no-fail-fast --test-threads 8 --offline 2>&1 | grep -E "Summary" | tail -1)
FAILS=$(cargo nextest run --workspace --no-fail-fast --test-threads 8 --offline 2>&1 | grep -E "^\s+FAIL" | awk '{print $NF}' | sort -u | tr '\n' ' ')
rm -f tests/property_tests.proptest-regressions
cp "$DEMO" tests/
cargo test --offline --test "$DN" >$WT.demo_with.log 2>&1; WITH=$?
git apply -R "$D/patch.diff"
cargo test --offline --test "$DN" >$WT.demo_without.log 2>&1; WITHOUT=$?
rm -f tests/"$DN".rs tests/property_tests.proptest-regressions
git checkout -- . ; git clean -fdq -e target
echo "{\"name\":\"$NAME\",\"applies\":true,\"build_exit\":$BUILD,\"suite\":\"$SUITE\",\"second_suite_run_failures\":\"$FAILS\",\"demo_exit_with_patch\":$WITH,\"demo_exit_without_patch\":$WITHOUT}" >> "$LOG"
