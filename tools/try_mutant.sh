#!/bin/sh
# usage: tools/try_mutant.sh <patch.diff> <C10|C12> [quick|thorough]  — applies the patch to /repo, runs the check, reverts.
P="$1"; ID="$2"; TIER="${3:-quick}"
cd /repo || exit 9
git diff --quiet || { echo "/repo not clean"; exit 9; }
git apply "$P" || { echo "patch does not apply"; exit 9; }
cd /verif
./check "$ID" "$TIER" > /tmp/try_mutant.out 2>&1; RC=$?
tail -6 /tmp/try_mutant.out
echo "check exit=$RC"
cd /repo && git checkout -- . && git clean -fdq src tests 2>/dev/null
git status --short
exit $RC
