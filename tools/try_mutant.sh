#!/bin/sh
# usage: tools/try_mutant.sh <patch.diff> <C10|C12> [quick|thorough]  — applies the patch to the repository under test
# (/repo, or $VERIF_REPO for background runs on a snapshot), runs the check, reverts.
P="$1"; ID="$2"; TIER="${3:-quick}"
HERE="$(cd "$(dirname "$0")/.." && pwd)"
REPO="${VERIF_REPO:-/repo}"
cd "$REPO" || exit 9
git diff --quiet || { echo "$REPO not clean"; exit 9; }
git apply "$P" || { echo "patch does not apply"; exit 9; }
cd "$HERE"
OUT=$(mktemp /tmp/try_mutant.XXXXXX)
./check "$ID" "$TIER" > "$OUT" 2>&1; RC=$?
tail -6 "$OUT"
grep -E "^VIOLATION-JSON" "$OUT" | head -3
echo "check exit=$RC"
rm -f "$OUT"
cd "$REPO" && git checkout -- . && git clean -fdq src tests 2>/dev/null
git status --short
exit $RC
