#!/usr/bin/env python3
"""Regenerates /verif/MANIFEST.json (kept as a script so the long texts stay reviewable)."""
import json, sys, os
HERE = os.path.dirname(os.path.dirname(os.path.abspath(__file__)))

NA_COMMON = ("pure function of (test-case set, settings): no schedule, clock, I/O, fault or interleaving exists "
             "for a deterministic simulator to own; seeded input generation alone would be property-based testing, "
             "not simulation (DESIGN.md §6). ")
NA = {
 "C01": "soundness (every test case matched) is a value-level statement about the pure result of build()",
 "C02": "exactness is language equivalence over all of Unicode; needs symbolic language comparison, not executions under faults",
 "C03": "class options generalise exactly: language-equivalence statement per flag subset",
 "C04": "case-insensitive option: pure; its only environment facet (Unicode table versions) is fixed at build time",
 "C05": "repetition conversion preserves the language: language-equivalence statement",
 "C06": "verbose/capture/escape are presentation only: language-equivalence statement",
 "C07": "totality and syntactic validity for all inputs x 2^15 settings of a pure function; resource exhaustion aborts and is outside the statement",
 "C08": "anchors / leftmost-first search: decided by deterministic sorts and a deterministic self-check loop",
 "C09": "digit/word/space tables vs the regex crate: exhaustive table comparison, no behaviour over time",
 "C11": "non-ASCII escaping: byte-level / language statement about a pure string",
 "C13": "thresholds honoured: AST-level statement about a pure result",
 "C14": "Python binding: pure post-processing of build(); needs the pyo3 extension in CPython; GIL serialises every call",
 "C15": "syntax highlighting only adds colour: string relation between two pure builds",
 "C16": "every pipeline stage preserves the language: per-stage language comparison on a pure pipeline (its only nondeterministic ingredient, hash order in the minimiser, is covered from outside by C10)",
 "C17": "WebAssembly binding cannot be executed here (no wasm32 target, no JS host) and is a pure delegation property",
}

def main():
    m = {
     "version": 1,
     "setup_cmd": "./setup.sh",
     "hooks": {
        "guard": "grex_verif",
        "enable": "RUSTFLAGS=\"--cfg grex_verif\" (set by /verif/check for the simhist harness build only; the grex CLI binary used by simenv is built without it)",
        "baseline_off_cmd": "cd /repo && cargo nextest run --workspace --no-fail-fast --test-threads 8 --offline || cargo test --workspace --no-fail-fast --offline",
        "source_commits": json.load(open(os.path.join(HERE, "tools", "hook_commits.json"))),
        "add_only": True,
     },
     "engines": [
       {"name": "simhist", "path": "sim/src/bin/simhist.rs", "serves_properties": ["C10"],
        "kind_free_text": "in-process deterministic simulation: real caller threads released one at a time by a seeded baton scheduler (switch points at every builder API call and at cfg(grex_verif) points inside build()), simulator-owned getrandom => every HashMap/HashSet seed, generated builder call histories checked against an executable builder model + fresh-process golden builds; explicit replay files + delta-debugging minimiser"},
       {"name": "simenv", "path": "sim/src/bin/simenv.rs + shim/simenv_shim.c", "serves_properties": ["C12", "C10"],
        "kind_free_text": "simulated operating system under the real unmodified grex binary (LD_PRELOAD shim serving synthetic stdin, planned files, short reads/writes, EINTR, errno faults, stale size hints, hash-key stream) driven by seeded fault plans; oracle = library called in-process on an independent line-splitting model"},
       {"name": "miri-threads", "path": "sim/src/bin/miri_scenario.rs", "serves_properties": ["C10"],
        "kind_free_text": "Miri's seeded preemptive scheduler (-Zmiri-many-seeds) over a small multi-threaded build scenario: preemption at every basic block incl. inside std sync primitives, data-race and UB detection; no hooks"},
     ],
     "checks": [],
     "not_applicable": [{"property_id": k, "reason": NA_COMMON + v} for k, v in sorted(NA.items())],
     "notes": "Technique family: deterministic simulation with fault injection. Only C10 and C12 quantify over something a simulator can own (histories/threads/hash seeds/processes; input channels/streams/OS faults); see DESIGN.md §0, §6.",
    }
    checks_path = os.path.join(HERE, "tools", "checks.json")
    if os.path.exists(checks_path):
        m["checks"] = json.load(open(checks_path))
    json.dump(m, open(os.path.join(HERE, "MANIFEST.json"), "w"), indent=1, ensure_ascii=False)
    print("wrote MANIFEST.json with", len(m["checks"]), "checks")
main()
