/*
 * simenv_shim.c — a simulated operating system boundary for one process lifetime.
 *
 * Pre-loaded (LD_PRELOAD) into the real, unmodified `grex` binary (and into the
 * small `fromfile_probe` helper). It owns, from a plan, everything the program can
 * observe from outside that the C10/C12 properties quantify over:
 *
 *   isatty(0)                     plan decides
 *   read(0, ..)                   content is SYNTHETIC (never the real fd); chunking, EINTR,
 *                                 hard errors, early end of stream
 *   open/open64/openat(<path>)    the one planned path: EINTR, errno failures, otherwise the real
 *                                 file the driver materialised at that path (so every path-based
 *                                 call the program may add works for real), or a memfd
 *   stat/lstat/statx(<path>)      truthful, size lie, failure (same script as for the descriptor)
 *   statx/fstat* on that fd       truthful, size lie, failure
 *   read(fd, ..) on that fd       short reads, EINTR, hard error, early EOF
 *   write/writev(1|2, ..)         short writes, EINTR, hard errors; bytes accepted are recorded
 *   getrandom                     the process's hash-key stream, from the plan's seed
 *
 * The plan arrives on the REAL fd 0 (the program never sees the real fd 0), the call
 * log leaves on the REAL fd 2 (the program's own stderr bytes are recorded inside the
 * log as hex), accepted stdout bytes are additionally forwarded to the real fd 1 so the
 * driver can cross-check the record against the pipe.
 *
 * When a script for a call class is exhausted the shim behaves like a fault-free kernel,
 * so every plan has a finite fault budget and a correct program always terminates.
 *
 * Inactive (fully transparent) unless SIMENV_ACTIVE=1 is in the environment.
 *
 * Plan grammar (one directive per line, decimal numbers, hex strings without prefix):
 *   seed <u64>
 *   tty <0|1>                    is stdin a terminal
 *   tty1 <0|1>, tty2 <0|1>       is stdout / stderr a terminal (default: ask the kernel)
 *   stdinkind <1..4>             fstat(0) reports a regular file / fifo / character device / socket
 *   filekind <2|3>               the planned file reports to be a fifo (size 0; lseek and pread fail with ESPIPE) /
 *                                a character device (size 0)
 *   stdinoffset <n>              regular-file stdin: n bytes were consumed before the program started
 *   stdin <hex>                  synthetic stdin content ("-" for empty)
 *   path <hex>                   the planned path
 *   file <hex>                   content served for the planned path through a memfd
 *   real <hex>                   instead of a memfd, open this real path (e.g. a directory)
 *   dchunk <class> <n>           after the script of <class> is exhausted, move at most n bytes per call
 *   ev <class> <kind> [arg]      scripted event, consumed in order per class
 *        classes: r0 (read stdin) rf (read planned fd) op (open planned path)
 *                 st (stat planned fd) w1 (write stdout) w2 (write stderr)
 *        kinds:   chunk <n> | eintr | err <errno> | eof | size <n>
 */
#define _GNU_SOURCE
#include <dlfcn.h>
#include <errno.h>
#include <fcntl.h>
#include <stdarg.h>
#include <stdint.h>
#include <stdio.h>
#include <stdlib.h>
#include <string.h>
#include <sys/stat.h>
#include <sys/syscall.h>
#include <sys/types.h>
#include <sys/uio.h>
#include <unistd.h>

enum { C_R0, C_RF, C_OP, C_ST, C_W1, C_W2, C_N };
static const char *CLS[C_N] = {"r0", "rf", "op", "st", "w1", "w2"};
enum { K_CHUNK, K_EINTR, K_ERR, K_EOF, K_SIZE };
static const char *KND[] = {"chunk", "eintr", "err", "eof", "size"};

struct ev { int kind; long arg; };
#define MAXEV 256
static struct ev evs[C_N][MAXEV];
static int nev[C_N], pos[C_N];
static long dchunk[C_N];
static int eof_latched[C_N];

static int active = -1; /* -1 unknown, 0 off, 1 on */
static uint64_t rng_state = 0x9E3779B97F4A7C15ull;
static int tty0 = 0, tty1 = -1, tty2 = -1; /* -1: ask the real kernel */
static mode_t stdin_mode(void);
static int file_kind = 0;  /* 0: a regular file, 2 fifo, 3 character device */
static int stdin_kind = 0; /* 0: as the kernel says (a pipe), 1 regular file, 2 fifo, 3 character device, 4 socket */
static unsigned char *sin_buf; static size_t sin_len, sin_pos;
static char *plan_path; static size_t plan_path_len;
static unsigned char *file_buf; static size_t file_len; static int have_file; /* file_len: also set from fstat when the planned path is a real file */
static char *real_path;
static int planned_fd = -1;
static int alias_fd = -1;       /* a descriptor obtained by opening /dev/stdin, /dev/fd/0 or /proc/self/fd/0 */
static size_t alias_pos;        /* its own offset when stdin is a regular file (a fresh open file description) */
static size_t stdin_offset;     /* regular-file stdin: how much of it had been consumed before the program started */
static unsigned long n_getrandom;

static ssize_t raw_write(int fd, const void *b, size_t n) { return syscall(SYS_write, fd, b, n); }
static ssize_t raw_read(int fd, void *b, size_t n) { return syscall(SYS_read, fd, b, n); }

/* ---- log ---------------------------------------------------------------- */
static char logbuf[1 << 16]; static size_t loglen;
static void log_flush(void) {
    size_t off = 0;
    while (off < loglen) {
        ssize_t r = raw_write(2, logbuf + off, loglen - off);
        if (r < 0) { if (errno == EINTR) continue; break; }
        off += (size_t)r;
    }
    loglen = 0;
}
static void log_raw(const char *s, size_t n) {
    while (n) {
        size_t room = sizeof logbuf - loglen;
        size_t k = n < room ? n : room;
        memcpy(logbuf + loglen, s, k); loglen += k; s += k; n -= k;
        if (loglen == sizeof logbuf) log_flush();
    }
}
static void logf_(const char *fmt, ...) {
    char tmp[512]; va_list ap; va_start(ap, fmt);
    int n = vsnprintf(tmp, sizeof tmp, fmt, ap); va_end(ap);
    if (n > 0) {
        size_t k = (size_t)(n < (int)sizeof tmp ? n : (int)sizeof tmp - 1);
        log_raw(tmp, k);
        if (tmp[k - 1] == '\n') log_flush(); /* one line = one record, never lost by an abort */
    }
}
static void log_hex(const unsigned char *b, size_t n) {
    static const char H[] = "0123456789abcdef";
    for (size_t i = 0; i < n; i++) { char c[2] = {H[b[i] >> 4], H[b[i] & 15]}; log_raw(c, 2); }
}

/* ---- plan --------------------------------------------------------------- */
static int hexval(int c) { return c >= '0' && c <= '9' ? c - '0' : c >= 'a' && c <= 'f' ? c - 'a' + 10 : -1; }
static unsigned char *unhex(const char *s, size_t *out_len) {
    size_t n = strlen(s);
    if (n == 1 && s[0] == '-') { *out_len = 0; return (unsigned char *)calloc(1, 1); }
    unsigned char *b = (unsigned char *)malloc(n / 2 + 1);
    size_t k = 0;
    for (size_t i = 0; i + 1 < n; i += 2) {
        int a = hexval(s[i]), c = hexval(s[i + 1]);
        if (a < 0 || c < 0) break;
        b[k++] = (unsigned char)(a << 4 | c);
    }
    b[k] = 0; *out_len = k; return b;
}
static int cls_of(const char *s) { for (int i = 0; i < C_N; i++) if (!strcmp(s, CLS[i])) return i; return -1; }

static void parse_plan(char *text) {
    char *save = NULL;
    for (char *line = strtok_r(text, "\n", &save); line; line = strtok_r(NULL, "\n", &save)) {
        char *sp = NULL; char *w = strtok_r(line, " ", &sp);
        if (!w) continue;
        if (!strcmp(w, "seed")) { char *a = strtok_r(NULL, " ", &sp); if (a) rng_state = strtoull(a, NULL, 10); }
        else if (!strcmp(w, "tty")) { char *a = strtok_r(NULL, " ", &sp); if (a) tty0 = atoi(a); }
        else if (!strcmp(w, "stdinoffset")) { char *a = strtok_r(NULL, " ", &sp); if (a) stdin_offset = (size_t)atol(a); }
        else if (!strcmp(w, "stdinkind")) { char *a = strtok_r(NULL, " ", &sp); if (a) stdin_kind = atoi(a); }
        else if (!strcmp(w, "filekind")) { char *a = strtok_r(NULL, " ", &sp); if (a) file_kind = atoi(a); }
        else if (!strcmp(w, "tty1")) { char *a = strtok_r(NULL, " ", &sp); if (a) tty1 = atoi(a); }
        else if (!strcmp(w, "tty2")) { char *a = strtok_r(NULL, " ", &sp); if (a) tty2 = atoi(a); }
        else if (!strcmp(w, "stdin")) { char *a = strtok_r(NULL, " ", &sp); if (a) sin_buf = unhex(a, &sin_len); }
        else if (!strcmp(w, "path")) { char *a = strtok_r(NULL, " ", &sp); if (a) plan_path = (char *)unhex(a, &plan_path_len); }
        else if (!strcmp(w, "file")) { char *a = strtok_r(NULL, " ", &sp); if (a) { file_buf = unhex(a, &file_len); have_file = 1; } }
        else if (!strcmp(w, "real")) { char *a = strtok_r(NULL, " ", &sp); size_t l; if (a) real_path = (char *)unhex(a, &l); }
        else if (!strcmp(w, "dchunk")) {
            char *c = strtok_r(NULL, " ", &sp), *a = strtok_r(NULL, " ", &sp);
            int ci = c ? cls_of(c) : -1; if (ci >= 0 && a) dchunk[ci] = atol(a);
        } else if (!strcmp(w, "ev")) {
            char *c = strtok_r(NULL, " ", &sp), *k = strtok_r(NULL, " ", &sp), *a = strtok_r(NULL, " ", &sp);
            int ci = c ? cls_of(c) : -1; if (ci < 0 || !k || nev[ci] >= MAXEV) continue;
            int ki = -1; for (int i = 0; i < 5; i++) if (!strcmp(k, KND[i])) ki = i;
            if (ki < 0) continue;
            evs[ci][nev[ci]].kind = ki; evs[ci][nev[ci]].arg = a ? atol(a) : 0; nev[ci]++;
        }
    }
}

static void ensure_init(void) {
    if (active >= 0) return;
    const char *e = getenv("SIMENV_ACTIVE");
    if (!e || strcmp(e, "1")) { active = 0; return; }
    active = 1;
    size_t cap = 1 << 16, len = 0; char *text = (char *)malloc(cap);
    for (;;) {
        if (len + 4096 > cap) { cap *= 2; text = (char *)realloc(text, cap); }
        ssize_t r = raw_read(0, text + len, cap - len - 1);
        if (r < 0) { if (errno == EINTR) continue; break; }
        if (r == 0) break;
        len += (size_t)r;
    }
    text[len] = 0;
    parse_plan(text);
    free(text);
    if (!sin_buf) { sin_buf = (unsigned char *)calloc(1, 1); sin_len = 0; }
    if (stdin_kind == 1 && stdin_offset <= sin_len) sin_pos = stdin_offset; /* descriptor 0 continues where its previous user stopped */
    logf_("@START pid-independent\n");
}

__attribute__((destructor)) static void fini(void) {
    if (active == 1) {
        logf_("@END getrandom=%lu", n_getrandom);
        for (int c = 0; c < C_N; c++) logf_(" %s=%d/%d", CLS[c], pos[c], nev[c]);
        logf_("\n");
        log_flush();
    }
}

/* Bounded liveness in logical steps: once the script of a class is exhausted the kernel is fault-free, so a
 * correct program finishes after a number of calls proportional to its input. A program that keeps calling
 * (e.g. retrying a read that reports end of stream) is stopped after STEP_LIMIT further calls of that class. */
/* generous: twice the input size (a plan may deliver the input one byte per call) plus a constant */
#define STEP_LIMIT (200000L + 2L * (long)(sin_len + file_len))
static long calls_after_script[C_N];
static void log_flush(void);
static struct ev *next_ev(int c) {
    if (pos[c] < nev[c]) return &evs[c][pos[c]++];
    if (++calls_after_script[c] > STEP_LIMIT) {
        logf_("@LIVELOCK %s calls_after_script=%ld\n", CLS[c], calls_after_script[c]);
        log_flush();
        syscall(SYS_exit_group, 97);
    }
    return NULL;
}

/* ---- getrandom ------------------------------------------------------------ */
static uint64_t splitmix(void) {
    uint64_t z = (rng_state += 0x9E3779B97F4A7C15ull);
    z = (z ^ (z >> 30)) * 0xBF58476D1CE4E5B9ull; z = (z ^ (z >> 27)) * 0x94D049BB133111EBull;
    return z ^ (z >> 31);
}
ssize_t getrandom(void *buf, size_t len, unsigned int flags) {
    ensure_init();
    if (!active) return syscall(SYS_getrandom, buf, len, flags);
    unsigned char *p = (unsigned char *)buf;
    for (size_t i = 0; i < len;) { uint64_t v = splitmix(); for (int j = 0; j < 8 && i < len; j++, i++) p[i] = (unsigned char)(v >> (8 * j)); }
    n_getrandom++;
    logf_("@G len=%zu\n", len);
    return (ssize_t)len;
}

/* ---- isatty ------------------------------------------------------------------ */
int isatty(int fd) {
    ensure_init();
    static int (*real)(int);
    if (!real) real = (int (*)(int))dlsym(RTLD_NEXT, "isatty");
    if (!active) return real(fd);
    int ans;
    if (fd == 0) ans = tty0;
    else if (fd == 1 && tty1 >= 0) ans = tty1;
    else if (fd == 2 && tty2 >= 0) ans = tty2;
    else return real(fd);
    logf_("@I fd=%d ret=%d\n", fd, ans);
    if (!ans) errno = ENOTTY;
    return ans;
}

/* ---- read -------------------------------------------------------------------- */
static ssize_t sim_read(int c, int fd, void *buf, size_t count) {
    struct ev *e = eof_latched[c] ? NULL : next_ev(c);
    size_t lim = count; const char *kind = "full";
    if (eof_latched[c]) { logf_("@R %s req=%zu ret=0 kind=eof-latched\n", CLS[c], count); return 0; }
    if (e) {
        switch (e->kind) {
        case K_EINTR: logf_("@R %s req=%zu ret=-1 errno=%d kind=eintr\n", CLS[c], count, EINTR); errno = EINTR; return -1;
        case K_ERR: logf_("@R %s req=%zu ret=-1 errno=%ld kind=err\n", CLS[c], count, e->arg); errno = (int)e->arg; return -1;
        case K_EOF: eof_latched[c] = 1; logf_("@R %s req=%zu ret=0 kind=eof\n", CLS[c], count); return 0;
        case K_CHUNK: if (e->arg > 0 && (size_t)e->arg < lim) lim = (size_t)e->arg; kind = "chunk"; break;
        default: break;
        }
    } else if (dchunk[c] > 0 && (size_t)dchunk[c] < lim) { lim = (size_t)dchunk[c]; kind = "dchunk"; }
    ssize_t r;
    if (c == C_R0) {
        /* a re-opened regular file has its own offset (starting at 0); a re-opened pipe or device shares the stream */
        size_t *pp = (fd == alias_fd && alias_fd >= 0 && stdin_kind == 1) ? &alias_pos : &sin_pos;
        size_t avail = sin_len - *pp; size_t k = avail < lim ? avail : lim;
        memcpy(buf, sin_buf + *pp, k); *pp += k; r = (ssize_t)k;
    } else {
        do { r = raw_read(fd, buf, lim); } while (r < 0 && errno == EINTR);
    }
    logf_("@R %s req=%zu ret=%zd kind=%s\n", CLS[c], count, r, kind);
    return r;
}
ssize_t read(int fd, void *buf, size_t count) {
    ensure_init();
    if (active) {
        if (fd == 0 || (fd == alias_fd && alias_fd >= 0)) return sim_read(C_R0, fd, buf, count);
        if (fd == planned_fd && planned_fd >= 0) return sim_read(C_RF, fd, buf, count);
    }
    return raw_read(fd, buf, count);
}
ssize_t readv(int fd, const struct iovec *iov, int iovcnt) {
    ensure_init();
    if (active && (fd == 0 || (fd == planned_fd && planned_fd >= 0)) && iovcnt > 0) {
        /* serve the first non-empty buffer only: a legal short read */
        for (int i = 0; i < iovcnt; i++) if (iov[i].iov_len) return read(fd, iov[i].iov_base, iov[i].iov_len);
        return 0;
    }
    return syscall(SYS_readv, fd, iov, iovcnt);
}

/* ---- write ------------------------------------------------------------------- */
static ssize_t sim_write(int c, int fd, const void *buf, size_t count) {
    struct ev *e = next_ev(c);
    size_t lim = count; const char *kind = "full";
    if (e) {
        switch (e->kind) {
        case K_EINTR: logf_("@W %s req=%zu ret=-1 errno=%d kind=eintr\n", CLS[c], count, EINTR); errno = EINTR; return -1;
        case K_ERR: logf_("@W %s req=%zu ret=-1 errno=%ld kind=err\n", CLS[c], count, e->arg); errno = (int)e->arg; return -1;
        case K_CHUNK: if (e->arg > 0 && (size_t)e->arg < lim) lim = (size_t)e->arg; kind = "chunk"; break;
        default: break;
        }
    } else if (dchunk[c] > 0 && (size_t)dchunk[c] < lim) { lim = (size_t)dchunk[c]; kind = "dchunk"; }
    logf_("@W %s req=%zu ret=%zu kind=%s data=", CLS[c], count, lim, kind);
    log_hex((const unsigned char *)buf, lim);
    logf_("\n");
    if (fd == 1) { /* forward what was accepted, completely, to the real stdout */
        size_t off = 0;
        while (off < lim) { ssize_t r = raw_write(1, (const char *)buf + off, lim - off); if (r < 0) { if (errno == EINTR) continue; break; } off += (size_t)r; }
    }
    return (ssize_t)lim;
}
ssize_t write(int fd, const void *buf, size_t count) {
    ensure_init();
    if (active && (fd == 1 || fd == 2)) return sim_write(fd == 1 ? C_W1 : C_W2, fd, buf, count);
    return raw_write(fd, buf, count);
}
ssize_t writev(int fd, const struct iovec *iov, int iovcnt) {
    ensure_init();
    if (active && (fd == 1 || fd == 2)) {
        size_t total = 0; for (int i = 0; i < iovcnt; i++) total += iov[i].iov_len;
        unsigned char *flat = (unsigned char *)malloc(total ? total : 1); size_t o = 0;
        for (int i = 0; i < iovcnt; i++) { memcpy(flat + o, iov[i].iov_base, iov[i].iov_len); o += iov[i].iov_len; }
        ssize_t r = sim_write(fd == 1 ? C_W1 : C_W2, fd, flat, total);
        int e = errno; free(flat); errno = e; return r;
    }
    return syscall(SYS_writev, fd, iov, iovcnt);
}

/* ---- open -------------------------------------------------------------------- */
static int is_stdin_alias(const char *path) {
    return active == 1 && path && (!strcmp(path, "/dev/stdin") || !strcmp(path, "/dev/fd/0") || !strcmp(path, "/proc/self/fd/0"));
}
/* opening the standard input by name: a socket cannot be opened that way (ENXIO); anything else yields a descriptor
 * that reads the simulated stream (its own offset 0 for a regular file, the shared stream for a pipe or device) */
static int open_stdin_alias(void) {
    if (stdin_kind == 4) { logf_("@O ret=-1 errno=%d kind=stdin-alias-socket\n", ENXIO); errno = ENXIO; return -1; }
    int fd = (int)syscall(SYS_openat, AT_FDCWD, "/dev/null", O_RDONLY, 0);
    if (fd >= 0) { alias_fd = fd; alias_pos = 0; }
    logf_("@O ret=%d kind=stdin-alias\n", fd >= 0 ? 0 : -1);
    return fd;
}
static int is_planned(const char *path) {
    return active == 1 && plan_path && path && strlen(path) == plan_path_len && !memcmp(path, plan_path, plan_path_len);
}
static int sim_open(const char *path, int flags) {
    struct ev *e = next_ev(C_OP);
    if (e && e->kind == K_EINTR) { logf_("@O ret=-1 errno=%d kind=eintr\n", EINTR); errno = EINTR; return -1; }
    if (e && e->kind == K_ERR) { logf_("@O ret=-1 errno=%ld kind=err\n", e->arg); errno = (int)e->arg; return -1; }
    int fd;
    if (real_path) {
        fd = (int)syscall(SYS_openat, AT_FDCWD, real_path, flags, 0);
        if (fd >= 0) { struct stat st0; if (syscall(SYS_fstat, fd, &st0) == 0 && st0.st_size > 0) file_len = (size_t)st0.st_size; }
        logf_("@O ret=%d errno=%d kind=real\n", fd >= 0 ? 0 : -1, fd >= 0 ? 0 : errno);
    } else if (have_file) {
        fd = (int)syscall(SYS_memfd_create, "simenv", 0u);
        if (fd >= 0) {
            size_t off = 0;
            while (off < file_len) { ssize_t r = raw_write(fd, file_buf + off, file_len - off); if (r < 0) { if (errno == EINTR) continue; break; } off += (size_t)r; }
            syscall(SYS_lseek, fd, (off_t)0, SEEK_SET);
        }
        logf_("@O ret=%d kind=memfd len=%zu\n", fd >= 0 ? 0 : -1, file_len);
    } else {
        logf_("@O ret=-1 errno=%d kind=absent\n", ENOENT); errno = ENOENT; return -1;
    }
    if (fd >= 0) planned_fd = fd;
    (void)path;
    return fd;
}
int open(const char *path, int flags, ...) {
    ensure_init();
    mode_t mode = 0; if (flags & (O_CREAT | O_TMPFILE)) { va_list ap; va_start(ap, flags); mode = (mode_t)va_arg(ap, int); va_end(ap); }
    if (is_planned(path)) return sim_open(path, flags);
    if (is_stdin_alias(path)) return open_stdin_alias();
    return (int)syscall(SYS_openat, AT_FDCWD, path, flags, mode);
}
int open64(const char *path, int flags, ...) {
    ensure_init();
    mode_t mode = 0; if (flags & (O_CREAT | O_TMPFILE)) { va_list ap; va_start(ap, flags); mode = (mode_t)va_arg(ap, int); va_end(ap); }
    if (is_planned(path)) return sim_open(path, flags);
    if (is_stdin_alias(path)) return open_stdin_alias();
    return (int)syscall(SYS_openat, AT_FDCWD, path, flags | O_LARGEFILE, mode);
}
int openat(int dirfd, const char *path, int flags, ...) {
    ensure_init();
    mode_t mode = 0; if (flags & (O_CREAT | O_TMPFILE)) { va_list ap; va_start(ap, flags); mode = (mode_t)va_arg(ap, int); va_end(ap); }
    if (is_planned(path)) return sim_open(path, flags);
    if (is_stdin_alias(path)) return open_stdin_alias();
    return (int)syscall(SYS_openat, dirfd, path, flags, mode);
}
int openat64(int dirfd, const char *path, int flags, ...) {
    ensure_init();
    mode_t mode = 0; if (flags & (O_CREAT | O_TMPFILE)) { va_list ap; va_start(ap, flags); mode = (mode_t)va_arg(ap, int); va_end(ap); }
    if (is_planned(path)) return sim_open(path, flags);
    if (is_stdin_alias(path)) return open_stdin_alias();
    return (int)syscall(SYS_openat, dirfd, path, flags | O_LARGEFILE, mode);
}
int close(int fd) {
    ensure_init();
    if (active == 1 && fd == planned_fd && fd >= 0) { planned_fd = -1; logf_("@C planned\n"); }
    if (active == 1 && fd == alias_fd && fd >= 0) alias_fd = -1;
    return (int)syscall(SYS_close, fd);
}

/* ---- stat -------------------------------------------------------------------- */
/* returns 1 and sets *err if the call must fail, otherwise 0 and *size_override >= 0 when the size must be replaced */
static int stat_event(long *size_override, int *err) {
    *size_override = -1; *err = 0;
    struct ev *e = next_ev(C_ST);
    if (!e) { logf_("@S kind=truthful\n"); return 0; }
    if (e->kind == K_ERR) { logf_("@S ret=-1 errno=%ld kind=err\n", e->arg); *err = (int)e->arg; return 1; }
    if (e->kind == K_EINTR) { logf_("@S ret=-1 errno=%d kind=eintr\n", EINTR); *err = EINTR; return 1; }
    if (e->kind == K_SIZE) { logf_("@S kind=size size=%ld\n", e->arg); *size_override = e->arg; return 0; }
    logf_("@S kind=truthful\n");
    return 0;
}
/* what the planned file claims to be (its content is delivered all the same) */
static mode_t file_mode_claimed(void) { return file_kind == 2 ? (S_IFIFO | 0600) : (S_IFCHR | 0620); }
int statx(int dirfd, const char *path_arg, int flags, unsigned int mask, struct statx *stx) {
    ensure_init();
    /* glibc declares the path of statx as nonnull, so the compiler may drop NULL checks on it; std does call
     * statx(0, NULL, 0, STATX_ALL, NULL) as an availability probe. Launder the pointer before testing it. */
    const char *path = path_arg;
    __asm__ volatile("" : "+r"(path));
    if (active == 1 && dirfd == 0 && (path == NULL || !*path) && stdin_kind > 0 && stx != NULL) {
        int r = (int)syscall(SYS_statx, dirfd, path, flags, mask, stx);
        if (r == 0) { stx->stx_mode = (uint16_t)stdin_mode(); stx->stx_size = stdin_kind == 1 ? (uint64_t)sin_len : 0; }
        logf_("@S fd=0 kind=stdinkind%d\n", stdin_kind);
        return r;
    }
    int planned = active == 1 && ((planned_fd >= 0 && dirfd == planned_fd && (path == NULL || !*path)) || is_planned(path));
    long so = -1; int err = 0;
    if (planned && stat_event(&so, &err)) { errno = err; return -1; }
    int r = (int)syscall(SYS_statx, dirfd, path, flags, mask, stx);
    if (planned && r == 0 && so >= 0) stx->stx_size = (uint64_t)so;
    if (planned && r == 0 && file_kind > 0 && S_ISREG(stx->stx_mode)) { stx->stx_mode = (uint16_t)file_mode_claimed(); stx->stx_size = 0; }
    return r;
}
static mode_t stdin_mode(void) {
    switch (stdin_kind) { case 1: return S_IFREG | 0644; case 2: return S_IFIFO | 0600; case 3: return S_IFCHR | 0620; case 4: return S_IFSOCK | 0600; default: return 0; }
}
int fstat(int fd, struct stat *st) {
    ensure_init();
    if (active == 1 && fd == 0 && stdin_kind > 0) {
        /* what kind of object the synthetic stdin claims to be; its content does not depend on it */
        int r = (int)syscall(SYS_fstat, fd, st);
        if (r == 0) { st->st_mode = stdin_mode(); st->st_size = stdin_kind == 1 ? (off_t)sin_len : 0; }
        logf_("@S fd=0 kind=stdinkind%d\n", stdin_kind);
        return r;
    }
    int planned = active == 1 && planned_fd >= 0 && fd == planned_fd;
    long so = -1; int err = 0;
    if (planned && stat_event(&so, &err)) { errno = err; return -1; }
    int r = (int)syscall(SYS_fstat, fd, st);
    if (planned && r == 0 && so >= 0) st->st_size = (off_t)so;
    if (planned && r == 0 && file_kind > 0 && S_ISREG(st->st_mode)) { st->st_mode = file_mode_claimed(); st->st_size = 0; }
    return r;
}
int fstat64(int fd, struct stat64 *st) { return fstat(fd, (struct stat *)st); }
int __fxstat(int ver, int fd, struct stat *st) { (void)ver; return fstat(fd, st); }
int __fxstat64(int ver, int fd, struct stat64 *st) { (void)ver; return fstat(fd, (struct stat *)st); }

/* path-based metadata of the planned path: the same script as for the open descriptor (a file that reports
 * size 0, like /proc files and FIFOs, does so for stat(path) and fstat(fd) alike) */
static int path_stat(const char *path, struct stat *st, int nofollow) {
    long so = -1; int err = 0;
    if (stat_event(&so, &err)) { errno = err; return -1; }
    int r = (int)syscall(SYS_newfstatat, AT_FDCWD, path, st, nofollow ? AT_SYMLINK_NOFOLLOW : 0);
    if (r == 0 && so >= 0) st->st_size = (off_t)so;
    if (r == 0 && file_kind > 0 && S_ISREG(st->st_mode)) { st->st_mode = file_mode_claimed(); st->st_size = 0; }
    return r;
}
/* a fifo cannot be repositioned nor read at an offset */
off_t lseek(int fd, off_t offset, int whence) {
    ensure_init();
    if (active == 1 && planned_fd >= 0 && fd == planned_fd && file_kind == 2) { logf_("@L fd=planned ret=-1 errno=%d\n", ESPIPE); errno = ESPIPE; return -1; }
    return (off_t)syscall(SYS_lseek, fd, offset, whence);
}
off_t lseek64(int fd, off_t offset, int whence) { return lseek(fd, offset, whence); }
ssize_t pread(int fd, void *buf, size_t count, off_t offset) {
    ensure_init();
    if (active == 1 && planned_fd >= 0 && fd == planned_fd && file_kind == 2) { logf_("@P fd=planned ret=-1 errno=%d\n", ESPIPE); errno = ESPIPE; return -1; }
    return syscall(SYS_pread64, fd, buf, count, offset);
}
ssize_t pread64(int fd, void *buf, size_t count, off_t offset) { return pread(fd, buf, count, offset); }
int stat(const char *path, struct stat *st) {
    ensure_init();
    if (is_planned(path)) return path_stat(path, st, 0);
    return (int)syscall(SYS_newfstatat, AT_FDCWD, path, st, 0);
}
int stat64(const char *path, struct stat64 *st) { return stat(path, (struct stat *)st); }
int lstat(const char *path, struct stat *st) {
    ensure_init();
    if (is_planned(path)) return path_stat(path, st, 1);
    return (int)syscall(SYS_newfstatat, AT_FDCWD, path, st, AT_SYMLINK_NOFOLLOW);
}
int lstat64(const char *path, struct stat64 *st) { return lstat(path, (struct stat *)st); }
int __xstat(int ver, const char *path, struct stat *st) { (void)ver; return stat(path, st); }
int __xstat64(int ver, const char *path, struct stat64 *st) { (void)ver; return stat(path, (struct stat *)st); }
int __lxstat(int ver, const char *path, struct stat *st) { (void)ver; return lstat(path, st); }
int __lxstat64(int ver, const char *path, struct stat64 *st) { (void)ver; return lstat(path, (struct stat *)st); }
int fstatat(int dirfd, const char *path, struct stat *st, int flags) {
    ensure_init();
    if (is_planned(path)) return path_stat(path, st, flags & AT_SYMLINK_NOFOLLOW);
    return (int)syscall(SYS_newfstatat, dirfd, path, st, flags);
}
int fstatat64(int dirfd, const char *path, struct stat64 *st, int flags) { return fstatat(dirfd, path, (struct stat *)st, flags); }
