#!/bin/sh
# Run once after a fresh restore, offline: builds the framework from files on disk only.
set -e
cd "$(dirname "$0")"
HERE="$(pwd)"
REPO="${VERIF_REPO:-/repo}"
export CARGO_NET_OFFLINE=true
mkdir -p build evidence replays target
ln -sfn "$REPO" repo-link
gcc -O2 -Wall -Wextra -Wno-nonnull-compare -shared -fPIC -o build/libsimenv.so shim/simenv_shim.c -ldl
(cd sim && RUSTFLAGS="--cfg grex_verif" CARGO_TARGET_DIR="$HERE/target/sim" cargo build --release --offline --bins)
env -u RUSTFLAGS CARGO_TARGET_DIR="$HERE/target/repo-cli" cargo build --release --offline --bin grex --manifest-path "$REPO/Cargo.toml"
echo "setup ok"
