#!/bin/sh
# Run once after a fresh restore, offline: builds the framework from files on disk only.
set -e
cd "$(dirname "$0")"
export CARGO_NET_OFFLINE=true
mkdir -p build evidence replays target
ln -sfn /repo repo-link
gcc -O2 -Wall -Wextra -Wno-nonnull-compare -shared -fPIC -o build/libsimenv.so shim/simenv_shim.c -ldl
(cd sim && RUSTFLAGS="--cfg grex_verif" CARGO_TARGET_DIR=/verif/target/sim cargo build --release --offline --bins)
env -u RUSTFLAGS CARGO_TARGET_DIR=/verif/target/repo-cli cargo build --release --offline --bin grex --manifest-path /repo/Cargo.toml
echo "setup ok"
