//! Scenario for the `miri-threads` engine (C10): a few caller threads build concurrently on tiny
//! universes; every result must equal the sequential reference computed afterwards in the same
//! interpreter. Miri's seed (-Zmiri-many-seeds) decides the preemptive schedule (every basic
//! block, incl. inside std's Once and locks) and the bytes getrandom returns (=> HashSet order).
//! Arguments (never the environment): <scenario number>.

use grex::RegExpBuilder;
use std::sync::{Arc, Barrier};
use std::thread;

#[derive(Clone, Copy)]
struct Cfg {
    digits: bool,
    words: bool,
    spaces: bool,
    repetitions: bool,
    ignore_case: bool,
    capture: bool,
}

fn build(cases: &[&str], c: Cfg) -> String {
    let mut b = RegExpBuilder::from(cases);
    if c.digits {
        b.with_conversion_of_digits();
    }
    if c.words {
        b.with_conversion_of_words();
    }
    if c.spaces {
        b.with_conversion_of_whitespace();
    }
    if c.repetitions {
        b.with_conversion_of_repetitions();
    }
    if c.ignore_case {
        b.with_case_insensitive_matching();
    }
    if c.capture {
        b.with_capturing_groups();
    }
    b.build()
}

const NONE: Cfg = Cfg { digits: false, words: false, spaces: false, repetitions: false, ignore_case: false, capture: false };

fn scenario(n: u32) -> Vec<(Vec<&'static str>, Cfg)> {
    match n {
        // two threads, two presentations of one set, two different class configurations, two builds each: lazy
        // tables are first used under contention, the equivalent trie states below `a` and `b` hold their edges in
        // different orders, process state written by one configuration is visible to the other, and the second
        // build of each thread meets whatever the first builds left behind
        0 => vec![
            // (the tails carry a regex metacharacter and a control character: the escaping tables are first used
            // under contention too)
            (vec!["a1x$", "a2y\t", "b1y\t", "b2x$"], Cfg { digits: true, ..NONE }),
            (vec!["b2x$", "a1x$", "b1y\t", "a2y\t", "a1x$"], Cfg { words: true, ..NONE }),
        ],
        // different configurations on the same strings (cross-talk through process state)
        1 => vec![
            (vec!["a1 ", "b2 "], Cfg { digits: true, ..NONE }),
            (vec!["a1 ", "b2 "], Cfg { words: true, ..NONE }),
            (vec!["a1 ", "b2 "], Cfg { spaces: true, digits: true, ..NONE }),
        ],
        // repetition conversion + case folding
        2 => vec![
            (vec!["aaa", "AAb", "aab"], Cfg { repetitions: true, ignore_case: true, ..NONE }),
            (vec!["aab", "aaa", "AAb"], Cfg { repetitions: true, ignore_case: true, ..NONE }),
            (vec!["abab", "ab"], Cfg { repetitions: true, capture: true, ..NONE }),
        ],
        // plain builds, four threads
        _ => vec![
            (vec!["ab", "ac", "bc"], NONE),
            (vec!["bc", "ab", "ac"], NONE),
            (vec!["ac", "bc", "ab", "ab"], NONE),
            (vec!["x", "xy"], Cfg { capture: true, ..NONE }),
        ],
    }
}

/// Scenario 4: one builder, cloned; the clones travel to two threads, diverge in their settings and are built
/// concurrently (twice each); the original is built afterwards on the main thread. All must equal fresh builds.
fn clone_scenario() -> bool {
    let cases = ["Ab", "ab", "a1", "b22"];
    let mut original = RegExpBuilder::from(&cases);
    original.with_conversion_of_digits();
    let mut c1 = original.clone();
    let mut c2 = original.clone();
    let barrier = Arc::new(Barrier::new(2));
    let (b1, b2) = (barrier.clone(), barrier.clone());
    let t1 = thread::spawn(move || {
        b1.wait();
        c1.with_case_insensitive_matching();
        let x = c1.build();
        (x, c1.build())
    });
    let t2 = thread::spawn(move || {
        b2.wait();
        c2.with_conversion_of_repetitions();
        let x = c2.build();
        (x, c2.build())
    });
    let r1 = t1.join().expect("clone thread 1 panicked");
    let r2 = t2.join().expect("clone thread 2 panicked");
    let r0 = original.build();
    let d = Cfg { digits: true, ..NONE };
    let e1 = build(&cases, Cfg { ignore_case: true, ..d });
    let e2 = build(&cases, Cfg { repetitions: true, ..d });
    let e0 = build(&cases, d);
    let ok = r1.0 == e1 && r1.1 == e1 && r2.0 == e2 && r2.1 == e2 && r0 == e0;
    if ok {
        println!("OK scenario=4 results={:?}", [r0, r1.0, r2.0]);
    } else {
        println!("MISMATCH scenario=4 got {:?} {:?} {:?} expected {:?} {:?} {:?}", r0, r1, r2, e0, e1, e2);
    }
    ok
}

fn main() {
    let n: u32 = std::env::args().nth(1).and_then(|s| s.parse().ok()).unwrap_or(0);
    if n == 4 {
        if !clone_scenario() {
            std::process::exit(1);
        }
        return;
    }
    let jobs = scenario(n);
    let barrier = Arc::new(Barrier::new(jobs.len()));
    let mut handles = vec![];
    for (cases, cfg) in jobs.clone() {
        let barrier = barrier.clone();
        handles.push(thread::spawn(move || {
            barrier.wait();
            let first = build(&cases, cfg);
            // a second build on the same thread (process state is warm now)
            let second = build(&cases, cfg);
            (first, second)
        }));
    }
    let results: Vec<(String, String)> = handles.into_iter().map(|h| h.join().expect("client thread panicked")).collect();
    // the sequential reference is computed AFTER the concurrent phase (a cold-start race must not be warmed away)
    let mut ok = true;
    for ((cases, cfg), (first, second)) in jobs.iter().zip(results.iter()) {
        let mut sorted: Vec<&str> = cases.clone();
        sorted.sort();
        sorted.dedup();
        let reference = build(&sorted, *cfg);
        if first != &reference || second != &reference {
            println!("MISMATCH scenario={} cases={:?} first={:?} second={:?} reference={:?}", n, cases, first, second, reference);
            ok = false;
        }
    }
    if ok {
        println!("OK scenario={} results={:?}", n, results.iter().map(|r| r.0.clone()).collect::<Vec<_>>());
    } else {
        std::process::exit(1);
    }
}
