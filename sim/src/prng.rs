//! Own PRNG so that one integer decides everything and the stream is stable across toolchains.

#[inline]
pub fn splitmix64(state: &mut u64) -> u64 {
    *state = state.wrapping_add(0x9E37_79B9_7F4A_7C15);
    let mut z = *state;
    z = (z ^ (z >> 30)).wrapping_mul(0xBF58_476D_1CE4_E5B9);
    z = (z ^ (z >> 27)).wrapping_mul(0x94D0_49BB_1331_11EB);
    z ^ (z >> 31)
}

/// Derives an independent seed from a parent seed and a path of labels.
pub fn derive(seed: u64, labels: &[u64]) -> u64 {
    let mut s = seed ^ 0xD1B5_4A32_D192_ED03;
    let mut out = splitmix64(&mut s);
    for &l in labels {
        s ^= l.wrapping_mul(0x2545_F491_4F6C_DD1D).rotate_left(17);
        out = splitmix64(&mut s) ^ out.rotate_left(23);
    }
    out
}

/// FNV-1a, used for log and workload fingerprints.
pub fn fnv1a(data: &[u8]) -> u64 {
    let mut h: u64 = 0xcbf2_9ce4_8422_2325;
    for &b in data {
        h ^= b as u64;
        h = h.wrapping_mul(0x0000_0100_0000_01B3);
    }
    h
}

pub fn fnv_mix(h: u64, data: &[u8]) -> u64 {
    let mut h = h;
    for &b in data {
        h ^= b as u64;
        h = h.wrapping_mul(0x0000_0100_0000_01B3);
    }
    h
}

#[derive(Clone, Debug)]
pub struct Rng {
    s: [u64; 4],
}

impl Rng {
    pub fn new(seed: u64) -> Self {
        let mut st = seed;
        let s = [
            splitmix64(&mut st),
            splitmix64(&mut st),
            splitmix64(&mut st),
            splitmix64(&mut st),
        ];
        Rng { s }
    }

    /// xoshiro256**
    pub fn next_u64(&mut self) -> u64 {
        let result = self.s[1].wrapping_mul(5).rotate_left(7).wrapping_mul(9);
        let t = self.s[1] << 17;
        self.s[2] ^= self.s[0];
        self.s[3] ^= self.s[1];
        self.s[1] ^= self.s[2];
        self.s[0] ^= self.s[3];
        self.s[2] ^= t;
        self.s[3] = self.s[3].rotate_left(45);
        result
    }

    /// uniform in 0..n (n > 0)
    pub fn below(&mut self, n: u64) -> u64 {
        debug_assert!(n > 0);
        // multiply-shift; bias is irrelevant for n << 2^64
        ((self.next_u64() as u128 * n as u128) >> 64) as u64
    }

    pub fn range(&mut self, lo: u64, hi_inclusive: u64) -> u64 {
        lo + self.below(hi_inclusive - lo + 1)
    }

    pub fn chance(&mut self, num: u64, den: u64) -> bool {
        self.below(den) < num
    }

    pub fn pick<'a, T>(&mut self, xs: &'a [T]) -> &'a T {
        &xs[self.below(xs.len() as u64) as usize]
    }

    pub fn shuffle<T>(&mut self, xs: &mut [T]) {
        for i in (1..xs.len()).rev() {
            let j = self.below(i as u64 + 1) as usize;
            xs.swap(i, j);
        }
    }
}
