//! Episode = one simulated process lifetime: swarm parameters and the runs generated from them.

use crate::model::{Cfg, Setter};
use crate::prng::{derive, Rng};
use crate::workload::*;
use std::collections::BTreeSet;

#[derive(Clone, Debug)]
pub struct EpisodeParams {
    pub n_runs: u64,
    pub max_clients: u64,
    pub profile: usize,
    pub set_size_max: u64,
    pub density_pct: u64,
    pub history_budget: usize,
    pub switch_pct: u64,
    pub policy: String,
    pub pct_depth: u64,
    pub sites: Vec<String>,
    pub pool: Vec<Universe>,
    pub same_universe_pct: u64,
    pub migrate_pct: u64,
    pub fresh_universe_pct: u64,
}

pub fn tier_code(tier: &str) -> u64 {
    if tier == "thorough" {
        2
    } else {
        1
    }
}

/// Universes shared by all episodes of a tier run, so that the same keys recur in different
/// processes, process states and orders.
pub fn tier_pool_universe(verif_seed: u64, idx: u64) -> Universe {
    let mut rng = Rng::new(derive(verif_seed, &[0x504F4F4C, idx]));
    let profile = rng.below(PROFILES.len() as u64) as usize;
    let density = *rng.pick(&[10u64, 30, 50]);
    gen_universe(&mut rng, profile, 6, density)
}

pub const TIER_POOL_SIZE: u64 = 48;

pub fn gen_params(rng: &mut Rng, verif_seed: u64, tier: &str) -> EpisodeParams {
    let n_runs = if tier == "thorough" {
        *rng.pick(&[1u64, 5, 5, 20, 50, 120])
    } else {
        *rng.pick(&[1u64, 3, 6, 12, 30])
    };
    let max_clients = *rng.pick(&[1u64, 2, 2, 3, 4, 4, 8, 16]);
    let profile = rng.below(PROFILES.len() as u64) as usize;
    let set_size_max = *rng.pick(&[2u64, 4, 6, 8]);
    let density_pct = *rng.pick(&[5u64, 15, 30, 60]);
    let history_budget = *rng.pick(&[6usize, 10, 16, 24]);
    let switch_pct = *rng.pick(&[0u64, 5, 30, 100]);
    let policy = rng.pick(POLICIES).to_string();
    let pct_depth = rng.range(1, 4);
    // buggify-style: a random subset of in-build sites is enabled per episode
    let sites: Vec<String> = match rng.below(4) {
        0 => vec![],
        1 => vec!["*".to_string()],
        _ => {
            let k = rng.range(1, 6);
            let mut s = BTreeSet::new();
            for _ in 0..k {
                s.insert(rng.pick(SITES).to_string());
            }
            s.into_iter().collect()
        }
    };
    let n_pool = rng.range(1, 6);
    let mut pool = vec![];
    for _ in 0..n_pool {
        if rng.chance(1, 3) {
            pool.push(tier_pool_universe(verif_seed, rng.below(TIER_POOL_SIZE)));
        } else {
            // related universes: same set under another configuration, or same configuration on another set
            if !pool.is_empty() && rng.chance(1, 2) {
                let base: Universe = rng.pick(&pool).clone();
                if rng.chance(1, 2) {
                    pool.push(Universe {
                        set: base.set,
                        cfg: gen_cfg(rng, density_pct),
                    });
                } else {
                    pool.push(Universe {
                        set: gen_set(rng, profile, set_size_max),
                        cfg: base.cfg,
                    });
                }
            } else {
                pool.push(gen_universe(rng, profile, set_size_max, density_pct));
            }
        }
    }
    // the wide profile exists to push a process through many distinct characters while earlier universes recur
    let wide = profile == 9;
    let n_runs = if wide { n_runs.max(20) } else { n_runs };
    EpisodeParams {
        n_runs,
        max_clients,
        profile,
        set_size_max,
        density_pct,
        history_budget,
        switch_pct,
        policy,
        pct_depth,
        sites,
        pool,
        same_universe_pct: *rng.pick(&[0u64, 50, 100]),
        migrate_pct: *rng.pick(&[0u64, 0, 20, 50]),
        fresh_universe_pct: if wide { 60 } else { *rng.pick(&[0u64, 10, 30]) },
    }
}

fn live_slots_at(ops: &[Op], k: usize) -> Vec<usize> {
    let mut live = BTreeSet::new();
    for op in &ops[..k] {
        match op {
            Op::New { slot, .. } => {
                live.insert(*slot);
            }
            Op::Clone { to, .. } => {
                live.insert(*to);
            }
            Op::Recv { slot, .. } => {
                live.insert(*slot);
            }
            Op::Send { slot, .. } => {
                live.remove(slot);
            }
            _ => {}
        }
    }
    live.into_iter().collect()
}

fn max_slot(ops: &[Op]) -> usize {
    ops.iter()
        .map(|op| match op {
            Op::New { slot, .. } | Op::Set { slot, .. } | Op::FailSet { slot, .. } | Op::Build { slot } => *slot,
            Op::Clone { from, to } => (*from).max(*to),
            Op::Send { slot, .. } | Op::Recv { slot, .. } => *slot,
        })
        .max()
        .unwrap_or(0)
}

fn shift(op: &Op, off: usize) -> Op {
    match op {
        Op::New { slot, cases } => Op::New {
            slot: slot + off,
            cases: cases.clone(),
        },
        Op::Set { slot, setter } => Op::Set {
            slot: slot + off,
            setter: setter.clone(),
        },
        Op::FailSet { slot, which } => Op::FailSet {
            slot: slot + off,
            which: *which,
        },
        Op::Build { slot } => Op::Build { slot: slot + off },
        Op::Clone { from, to } => Op::Clone {
            from: from + off,
            to: to + off,
        },
        Op::Send { slot, mailbox } => Op::Send {
            slot: slot + off,
            mailbox: *mailbox,
        },
        Op::Recv { slot, mailbox } => Op::Recv {
            slot: slot + off,
            mailbox: *mailbox,
        },
    }
}

/// Moves the tail of client `i`'s history (all live builders) to client `j` (> i): the builders
/// travel through mailboxes, the remaining operations run on `j`'s thread.
pub fn migrate_tail(clients: &mut [ClientSpec], mailboxes: &mut usize, i: usize, j: usize, rng: &mut Rng) {
    assert!(i < j);
    let n = clients[i].ops.len();
    if n < 2 {
        return;
    }
    let k = rng.range(1, n as u64 - 1) as usize;
    let live = live_slots_at(&clients[i].ops, k);
    if live.is_empty() {
        return;
    }
    let off = max_slot(&clients[j].ops) + max_slot(&clients[i].ops) + 2;
    let tail: Vec<Op> = clients[i].ops[k..].to_vec();
    clients[i].ops.truncate(k);
    let mut block = vec![];
    for s in &live {
        let mb = *mailboxes;
        *mailboxes += 1;
        clients[i].ops.push(Op::Send { slot: *s, mailbox: mb });
        block.push(Op::Recv {
            slot: s + off,
            mailbox: mb,
        });
    }
    for op in &tail {
        block.push(shift(op, off));
    }
    let p = rng.below(clients[j].ops.len() as u64 + 1) as usize;
    // never split j's own ops between a New and its dependants in a way that matters: slots are disjoint
    let rest = clients[j].ops.split_off(p);
    clients[j].ops.extend(block);
    clients[j].ops.extend(rest);
}

pub fn gen_run(rng: &mut Rng, p: &EpisodeParams) -> RunSpec {
    let n_clients = rng.range(1, p.max_clients) as usize;
    let shared_u = rng.pick(&p.pool).clone();
    let mut clients = vec![];
    for _ in 0..n_clients {
        let u = if rng.below(100) < p.fresh_universe_pct {
            gen_universe(rng, p.profile, p.set_size_max, p.density_pct)
        } else if rng.below(100) < p.same_universe_pct {
            shared_u.clone()
        } else {
            rng.pick(&p.pool).clone()
        };
        clients.push(ClientSpec {
            hash_seed: rng.next_u64(),
            ops: gen_history(rng, &u, p.history_budget),
        });
    }
    let mut mailboxes = 0usize;
    if n_clients >= 2 {
        for i in 0..n_clients - 1 {
            if rng.below(100) < p.migrate_pct {
                let j = rng.range(i as u64 + 1, n_clients as u64 - 1) as usize;
                migrate_tail(&mut clients, &mut mailboxes, i, j, rng);
            }
        }
    }
    RunSpec {
        clients,
        sites: p.sites.clone(),
        sched: SchedSpec::Policy {
            policy: p.policy.clone(),
            switch_pct: p.switch_pct,
            pct_depth: p.pct_depth,
            seed: rng.next_u64(),
        },
        mailboxes,
        preempts: vec![],
    }
}

// ---------------------------------------------------------------------------------------
// Systematic stratum: every setter meets every history shape, independent of the seed's luck.
// ---------------------------------------------------------------------------------------

/// Test cases on which every setter changes the output.
pub fn sensitive_set() -> Vec<String> {
    vec![
        "a1 _-".to_string(),
        "a1 _-x".to_string(),
        "Ab".to_string(),
        "ab".to_string(),
        "zzz9".to_string(),
        "ü💩".to_string(),
        "abab q".to_string(),
        // letters whose case mapping depends on the language (Turkic dotted / dotless i)
        "Ix".to_string(),
        "İy".to_string(),
        // a long test case made of a repeated unit (length- and repetition-triggered code paths)
        "abcabcabcabcabcabc".to_string(),
        // a pair whose order flips under case folding ("Bc" < "ad" but "bc" > "ad")
        "Bc".to_string(),
        "ad".to_string(),
    ]
}

pub fn all_setters() -> Vec<Setter> {
    vec![
        Setter::Digits,
        Setter::NonDigits,
        Setter::Spaces,
        Setter::NonSpaces,
        Setter::Words,
        Setter::NonWords,
        Setter::Repetitions,
        Setter::IgnoreCase,
        Setter::Capture,
        Setter::Escape(false),
        Setter::Escape(true),
        Setter::Verbose,
        Setter::NoStart,
        Setter::NoEnd,
        Setter::NoAnchors,
        Setter::Colorize,
        Setter::MinRep(2),
        Setter::MinLen(2),
    ]
}

pub const SHAPES: &[&str] = &[
    "s.b",
    "b.s.b",
    "s.b.b",
    "s.clone.b/b",
    "clone.s.b+b-orig",
    "s.s.b",
    "fail.s.b",
    "b@A.s.b@B",
    "s'.s.b", // overwritten argument (last wins) or repeated flag
];

/// The systematic runs: setter x shape x context (plain / with repetitions enabled so that thresholds matter)
/// x two hash streams x two schedules.
pub fn systematic_runs(verif_seed: u64) -> Vec<RunSpec> {
    let mut out = vec![];
    let main_set = sensitive_set();
    // a second, small set without any common first letters, on which the ORDER of the test cases changes under case
    // folding at the very first character ("Bc" < "ad" < "mn" but "ad" < "bc" < "mn"); in the big set an earlier
    // "Ab" masks that. Used for a third variant of every shape.
    // Two more members fold to a longer / are longer than their neighbours in bytes ("Ⱥx" is 3 bytes, its lower case 4,
    // "💩y" 5), so that an order or a buffer that depends on the byte length before folding shows.
    let order_set: Vec<String> = vec!["Bc".into(), "ad".into(), "Zq".into(), "mn".into(), "Σx".into(), "σw".into(), "\u{23a}x".into(), "\u{1f4a9}y".into()];
    for (si, s) in all_setters().into_iter().enumerate() {
        for (hi, shape) in SHAPES.iter().enumerate() {
            for variant in 0..3u64 {
                if variant == 2 && !matches!(s, Setter::IgnoreCase | Setter::Capture | Setter::Verbose | Setter::NoAnchors | Setter::Repetitions) {
                    continue;
                }
                let cases = if variant == 2 { order_set.clone() } else { main_set.clone() };
                let mut rng = Rng::new(derive(verif_seed, &[0x535953, si as u64, hi as u64, variant]));
                let mut pres = cases.clone();
                rng.shuffle(&mut pres);
                // thresholds only matter when repetition conversion is on
                let ctx: Vec<Setter> = match s {
                    Setter::MinRep(_) | Setter::MinLen(_) => vec![Setter::Repetitions],
                    Setter::Escape(_) => vec![],
                    _ => {
                        if variant == 1 {
                            vec![Setter::Repetitions]
                        } else {
                            vec![]
                        }
                    }
                };
                let mut a: Vec<Op> = vec![Op::New { slot: 0, cases: pres.clone() }];
                for c in &ctx {
                    a.push(Op::Set { slot: 0, setter: c.clone() });
                }
                let set = |slot: usize| Op::Set { slot, setter: s.clone() };
                let mut clients: Vec<Vec<Op>> = vec![];
                let mut mailboxes = 0;
                match *shape {
                    "s.b" => {
                        a.extend([set(0), Op::Build { slot: 0 }]);
                        clients.push(a);
                    }
                    "b.s.b" => {
                        a.extend([Op::Build { slot: 0 }, set(0), Op::Build { slot: 0 }]);
                        clients.push(a);
                    }
                    "s.b.b" => {
                        a.extend([set(0), Op::Build { slot: 0 }, Op::Build { slot: 0 }]);
                        clients.push(a);
                    }
                    "s.clone.b/b" => {
                        a.extend([
                            set(0),
                            Op::Clone { from: 0, to: 1 },
                            Op::Build { slot: 1 },
                            Op::Build { slot: 0 },
                        ]);
                        clients.push(a);
                    }
                    "clone.s.b+b-orig" => {
                        a.extend([
                            Op::Clone { from: 0, to: 1 },
                            set(1),
                            Op::Build { slot: 1 },
                            Op::Build { slot: 0 },
                            Op::Build { slot: 1 },
                        ]);
                        clients.push(a);
                    }
                    "s.s.b" => {
                        a.extend([set(0), set(0), Op::Build { slot: 0 }]);
                        clients.push(a);
                    }
                    "fail.s.b" => {
                        a.extend([
                            Op::FailSet { slot: 0, which: (variant % 2) as u8 },
                            set(0),
                            Op::Build { slot: 0 },
                            Op::FailSet { slot: 0, which: ((variant + 1) % 2) as u8 },
                            Op::Build { slot: 0 },
                        ]);
                        clients.push(a);
                    }
                    "b@A.s.b@B" => {
                        a.extend([Op::Build { slot: 0 }, Op::Send { slot: 0, mailbox: 0 }]);
                        clients.push(a);
                        clients.push(vec![Op::Recv { slot: 0, mailbox: 0 }, set(0), Op::Build { slot: 0 }]);
                        mailboxes = 1;
                    }
                    _ => {
                        // overwritten argument / repeated flag
                        let first = match s {
                            Setter::Escape(b) => Setter::Escape(!b),
                            Setter::MinRep(_) => Setter::MinRep(3),
                            Setter::MinLen(_) => Setter::MinLen(3),
                            ref other => other.clone(),
                        };
                        a.extend([
                            Op::Set { slot: 0, setter: first },
                            Op::Build { slot: 0 },
                            set(0),
                            Op::Build { slot: 0 },
                        ]);
                        clients.push(a);
                    }
                }
                // a neighbour on another presentation of the same set and the same final configuration
                let mut nb_pres = cases.clone();
                nb_pres.push(cases[(si + hi) % cases.len()].clone());
                rng.shuffle(&mut nb_pres);
                let mut nb = vec![Op::New { slot: 0, cases: nb_pres }];
                for c in &ctx {
                    nb.push(Op::Set { slot: 0, setter: c.clone() });
                }
                nb.extend([set(0), Op::Build { slot: 0 }]);
                clients.push(nb);
                out.push(RunSpec {
                    clients: clients
                        .into_iter()
                        .map(|ops| ClientSpec {
                            hash_seed: rng.next_u64(),
                            ops,
                        })
                        .collect(),
                    sites: vec!["*".to_string()],
                    sched: SchedSpec::Policy {
                        policy: if variant == 0 { "round-robin".into() } else { "random".into() },
                        switch_pct: 50,
                        pct_depth: 2,
                        seed: rng.next_u64(),
                    },
                    mailboxes,
                    preempts: vec![],
                });
            }
        }
    }
    // histories around a build() that panics (the library re-parses its own output when both anchors are off;
    // surrogate escapes of an astral character do not parse): the panic is a value like any other result, and
    // whatever follows on the same builder, on a clone taken before or after, or on the same thread must still
    // be what a fresh builder gives
    for variant in 0..3u64 {
        let mut rng = Rng::new(derive(verif_seed, &[0x50414E, variant]));
        let mut pres = vec!["x💩".to_string(), "ab".to_string(), "a𝔸".to_string()];
        rng.shuffle(&mut pres);
        let boom = vec![Setter::Escape(true), Setter::NoAnchors];
        let mut a: Vec<Op> = vec![Op::New { slot: 0, cases: pres.clone() }, Op::Clone { from: 0, to: 1 }];
        for st in &boom {
            a.push(Op::Set { slot: 0, setter: st.clone() });
        }
        a.extend([
            Op::Build { slot: 0 },            // panics
            Op::Build { slot: 0 },            // must panic again, the same way
            Op::Clone { from: 0, to: 2 },     // clone taken after a panicking build
            Op::Build { slot: 2 },
            Op::Build { slot: 1 },            // clone taken before: plain result
            Op::Set { slot: 0, setter: Setter::Verbose },
            Op::Build { slot: 0 },
            Op::Set { slot: 1, setter: Setter::Digits },
            Op::Build { slot: 1 },
        ]);
        let mut b: Vec<Op> = vec![Op::New { slot: 0, cases: pres.clone() }];
        if variant >= 1 {
            // the same thread builds something harmless after a panic of its own
            for st in &boom {
                b.push(Op::Set { slot: 0, setter: st.clone() });
            }
            b.push(Op::Build { slot: 0 });
            b.push(Op::New { slot: 1, cases: vec!["ab".into(), "cd".into()] });
            b.push(Op::Build { slot: 1 });
        } else {
            b.push(Op::Build { slot: 0 });
        }
        out.push(RunSpec {
            clients: vec![ClientSpec { hash_seed: rng.next_u64(), ops: a }, ClientSpec { hash_seed: rng.next_u64(), ops: b }],
            sites: vec!["*".to_string()],
            sched: SchedSpec::Policy { policy: if variant == 2 { "random".into() } else { "round-robin".into() }, switch_pct: 50, pct_depth: 2, seed: rng.next_u64() },
            mailboxes: 0,
            preempts: vec![],
        });
    }
    out
}

pub fn default_cfg() -> Cfg {
    Cfg::default()
}

// ---------------------------------------------------------------------------------------
// Scenario episodes: situations that the random episodes reach only by luck of the seed, made certain.
// Each is one process lifetime (a list of runs executed in order in one worker).
// ---------------------------------------------------------------------------------------

pub const SCENARIO_BASE: u64 = 10_000_000;
/// 0..4: the four scenarios in the canonical process environment; 4..8: the same four under an odd one (Turkish
/// locale, three CPUs); 8: scenario 0 under an address-space limit (failing allocations).
pub const SCENARIOS: u64 = 16;
/// Scenario 15: code points that agree in their low 8, 16 or 20 bits, built one after the other on one thread under
/// every pair of escaping settings (whatever is keyed by a truncated or bit-packed code point confuses them).
pub const SCENARIO_ALIASES: u64 = 15;
/// Scenario 13: a crowd — twelve clients parked at the same in-build site at the same time, for every site.
pub const SCENARIO_CROWD: u64 = 13;
/// Scenario 14: a large foreign build (more than a thousand distinct test cases) in the gap at every visit of a small one.
pub const SCENARIO_OVERFLOW_IN_GAP: u64 = 14;
/// Scenario 12: the whole systematic stratum once more, in the odd process environment.
pub const SCENARIO_SYSTEMATIC_ODD_ENV: u64 = 12;
pub const SCENARIO_KINDS: u64 = 4;
/// Scenarios 8..12 run a large-automaton build with only this much address space (MiB) left above what the process
/// has mapped when the build starts: allocations of that order fail. A failing allocation normally aborts the
/// process (then the episode is not judged); code that handles it must still return the same result.
pub const SCENARIO_MEMORY_LIMITED: u64 = 8;
pub const SCENARIO_MEMORY_MARGINS_MB: [u64; 4] = [64, 96, 128, 192];

fn plain_build(cases: Vec<String>, setters: Vec<Setter>) -> Vec<Op> {
    let mut ops = vec![Op::New { slot: 0, cases }];
    for s in setters {
        ops.push(Op::Set { slot: 0, setter: s });
    }
    ops.push(Op::Build { slot: 0 });
    ops
}

fn spec(clients: Vec<Vec<Op>>, rng: &mut Rng, sites: Vec<String>, policy: &str) -> RunSpec {
    RunSpec {
        clients: clients
            .into_iter()
            .map(|ops| ClientSpec { hash_seed: rng.next_u64(), ops })
            .collect(),
        sites,
        sched: SchedSpec::Policy { policy: policy.into(), switch_pct: 100, pct_depth: 2, seed: rng.next_u64() },
        mailboxes: 0,
        preempts: vec![],
    }
}

pub fn scenario_runs(k: u64, verif_seed: u64) -> Vec<RunSpec> {
    if k == SCENARIO_SYSTEMATIC_ODD_ENV {
        return systematic_runs(verif_seed);
    }
    if k == SCENARIO_CROWD {
        // Whatever the library counts, pools or limits process-wide is held by twelve builds at once: for every
        // site one run in which all twelve clients advance in lock step and are parked there together. The sets nest
        // repetitions and mix character kinds so that every conversion phase is entered (and re-entered).
        let mut rng = Rng::new(derive(verif_seed, &[0x43524F57, 0]));
        let sets: [&[&str]; 3] = [
            &["aaaabaaaabaaaabaaaab ffxffxffx", "a1a1a1 b2b2", "xyz"],
            &["ababab cdcdcd ababab cdcdcd", "zz zz zz", "q"],
            &["1122112211221122", "aXaXaX", "  \t\t  \t\t"],
        ];
        let mut runs = vec![];
        for site in SITES.iter() {
            let clients: Vec<Vec<Op>> = (0..12)
                .map(|i| plain_build(sets[i % 3].iter().map(|x| x.to_string()).collect(), vec![Setter::Repetitions, Setter::Digits, Setter::Spaces]))
                .collect();
            runs.push(spec(clients, &mut rng, vec![site.to_string()], "round-robin"));
        }
        return runs;
    }
    if k == SCENARIO_OVERFLOW_IN_GAP {
        // A bounded process-wide table overflows while another build is under way: at every visit (hook call or call
        // entry) of a small build the other client builds 1,100 (then 2,100) distinct short test cases.
        let mut rng = Rng::new(derive(verif_seed, &[0x4F564552, 0]));
        let mut runs = vec![];
        for n in [1100usize, 2100] {
            let big: Vec<String> = (0..n).map(|i| format!("{}{}", ["s", "t", "u"][i % 3], i)).collect();
            for visit in 1..=36u64 {
                let victim = vec![
                    Op::New { slot: 0, cases: vec!["ab".into(), "cd1".into(), "ab".into(), "e f".into()] },
                    Op::Set { slot: 0, setter: Setter::Digits },
                    Op::Build { slot: 0 },
                    Op::Build { slot: 0 },
                ];
                let intruder = plain_build(big.clone(), vec![]);
                runs.push(RunSpec {
                    clients: vec![ClientSpec { hash_seed: rng.next_u64() | 1, ops: victim }, ClientSpec { hash_seed: rng.next_u64() | 1, ops: intruder }],
                    sites: vec![],
                    sched: SchedSpec::List { decisions: vec![0] },
                    mailboxes: 0,
                    preempts: vec![Preempt { client: 0, visit, steps: 0, to: 1, via: 0 }],
                });
            }
        }
        return runs;
    }
    if k == SCENARIO_ALIASES {
        // Families of code points that coincide when truncated to 8, 16 or 20 bits or when a flag is packed into bit 16
        // or 20 of a key. Every ordered pair of a family is built back to back on one thread, under every pair of
        // escaping settings (off, plain, surrogate pairs) and once case-insensitively; a second run splits the same
        // list over two clients that alternate.
        let mut rng = Rng::new(derive(verif_seed, &[0x414C4941, 0]));
        let bases = [0xE9u32, 0xFC, 0x20AC, 0x2665, 0x1F4A9, 0x10400];
        let esc = [None, Some(false), Some(true)];
        let mut ops: Vec<Op> = vec![];
        for base in bases {
            let mut fam: Vec<char> = vec![];
            for cp in [base, base & 0xFF, base & 0xFFFF, base | 0x1_0000, (base & 0xFFFF) | 0x1_0000, base | 0x10_0000, (base & 0xFFFF) | 0x10_0000, (base & 0xFF) | 0x100] {
                if cp >= 0x80 {
                    if let Some(c) = char::from_u32(cp) {
                        if !fam.contains(&c) {
                            fam.push(c);
                        }
                    }
                }
            }
            for a in &fam {
                for b in &fam {
                    if a == b {
                        continue;
                    }
                    for (i, ea) in esc.iter().enumerate() {
                        for (j, eb) in esc.iter().enumerate() {
                            if i == 0 && j == 0 {
                                continue;
                            }
                            for (c, e) in [(a, ea), (b, eb)] {
                                ops.push(Op::New { slot: 0, cases: vec![format!("x{}y", c), format!("{}{}", c, c), "q".into()] });
                                if let Some(s) = e {
                                    ops.push(Op::Set { slot: 0, setter: Setter::Escape(*s) });
                                }
                                if (i + j) % 3 == 0 {
                                    ops.push(Op::Set { slot: 0, setter: Setter::IgnoreCase });
                                }
                                ops.push(Op::Build { slot: 0 });
                            }
                        }
                    }
                }
            }
        }
        let one = spec(vec![ops.clone()], &mut rng, vec![], "run-to-completion");
        // two clients: the list cut in two halves at a build boundary, alternating at every API call
        let cut = ops.iter().enumerate().filter(|(_, o)| matches!(o, Op::New { .. })).map(|(i, _)| i).nth(ops.iter().filter(|o| matches!(o, Op::New { .. })).count() / 2).unwrap_or(0);
        let (first, second) = ops.split_at(cut);
        let two = spec(vec![first.to_vec(), second.to_vec()], &mut rng, vec![], "round-robin");
        return vec![one, two];
    }
    if k >= SCENARIO_MEMORY_LIMITED {
        // one client, two builds of automata with roughly a thousand states (the elimination matrix has states^2 cells)
        let mut rng = Rng::new(derive(verif_seed, &[0x4D454D, 0]));
        const AB: &[&str] = &["a", "b", "c"];
        let mut runs = vec![];
        for (n, len) in [(60usize, 20u64), (100, 20)] {
            let mut set = BTreeSet::new();
            while set.len() < n {
                set.insert((0..len).map(|_| *rng.pick(AB)).collect::<String>());
            }
            let ops = plain_build(set.into_iter().collect(), vec![]);
            runs.push(spec(vec![ops], &mut rng, vec![], "run-to-completion"));
        }
        return runs;
    }
    let k = k % SCENARIO_KINDS;
    let mut rng = Rng::new(derive(verif_seed, &[0x5343454E, k]));
    const LETTERS: &[&str] = &[
        "a", "b", "c", "d", "e", "f", "g", "h", "i", "j", "k", "l", "m", "n", "o", "p", "q", "r", "s", "t", "u", "v", "w", "x", "y", "z",
    ];
    let words = |rng: &mut Rng, n: usize, len: u64, alpha: &[&str]| -> Vec<String> {
        let mut set = BTreeSet::new();
        let mut tries = 0;
        while set.len() < n && tries < n * 4 {
            tries += 1;
            set.insert((0..len).map(|_| *rng.pick(alpha)).collect::<String>());
        }
        set.into_iter().collect()
    };
    match k {
        // S0 overlapping large builds: four clients build large automata and are parked inside build() at
        // every site, round robin, so that all of them hold their intermediate structures at the same time
        0 => {
            let mut runs = vec![];
            for n in [200usize, 300] {
                let w = words(&mut rng, n, 6, LETTERS);
                let clients = (0..4)
                    .map(|i| {
                        let mut p = w.clone();
                        rng.shuffle(&mut p);
                        plain_build(p, if i % 2 == 1 { vec![Setter::Capture] } else { vec![] })
                    })
                    .collect();
                // switch points only around the elimination phase, so that the (bounded) budget of in-build
                // switches is spent where the large intermediate structures are alive
                let late: Vec<String> = ["regexp.after_dfa", "expr.eliminate", "regexp.after_expr", "dfa.before_recreate"].iter().map(|x| x.to_string()).collect();
                runs.push(spec(clients, &mut rng, late, "round-robin"));
            }
            runs
        }
        // S1 size thresholds: hundreds of distinct test cases (with and without repetition conversion), and
        // short sets whose lists are long only through duplicates, each under two presentations on two clients
        1 => {
            let mut runs = vec![];
            for (n, rep) in [(70usize, true), (130, true), (300, false), (300, true), (600, false), (1100, false), (1100, true)] {
                let w = words(&mut rng, n, 4, &LETTERS[..6]);
                let setters = if rep { vec![Setter::Repetitions] } else { vec![] };
                let mut p2 = w.clone();
                rng.shuffle(&mut p2);
                let mut p3 = w.clone();
                p3.reverse();
                runs.push(spec(
                    vec![plain_build(w.clone(), setters.clone()), plain_build(p2, setters.clone()), plain_build(p3, setters)],
                    &mut rng,
                    vec![],
                    "random",
                ));
            }
            for target in [300usize, 520, 1100, 2100, 4200] {
                let base = words(&mut rng, 6, 3, &LETTERS[..4]);
                let mut padded = base.clone();
                while padded.len() < target {
                    let x = rng.pick(&base).clone();
                    padded.push(x);
                }
                rng.shuffle(&mut padded);
                let mut rot = padded.clone();
                rot.rotate_left(target / 3);
                runs.push(spec(
                    vec![plain_build(padded, vec![Setter::Repetitions, Setter::NoAnchors]), plain_build(rot, vec![Setter::Repetitions, Setter::NoAnchors]), plain_build(base, vec![Setter::Repetitions, Setter::NoAnchors])],
                    &mut rng,
                    vec![],
                    "random",
                ));
            }
            runs
        }
        // S2 character churn: one process formats several hundred distinct characters as class members (runs of
        // neighbouring code points), then meets the first ones again
        2 => {
            let mut runs = vec![];
            let mut first: Option<Vec<String>> = None;
            for i in 0..60u32 {
                let start = 0x0100 + i * 7;
                let mut set: Vec<String> = (0..6).filter_map(|j| char::from_u32(start + j)).map(|c| c.to_string()).collect();
                set.push(char::from_u32(0x0400 + i * 3).unwrap_or('x').to_string());
                if first.is_none() {
                    first = Some(set.clone());
                }
                runs.push(spec(vec![plain_build(set, vec![])], &mut rng, vec![], "random"));
                if i % 20 == 19 {
                    runs.push(spec(vec![plain_build(first.clone().unwrap(), vec![])], &mut rng, vec![], "random"));
                }
            }
            runs
        }
        // S3 a long-lived thread: one client thread performs 600 builds, alternating between conversion
        // configurations on tiny inputs that share characters (per-thread state, counters, epochs)
        _ => {
            let masks: Vec<Vec<Setter>> = vec![
                vec![Setter::Digits],
                vec![Setter::Words],
                vec![Setter::Digits, Setter::NonWords],
                vec![Setter::Spaces, Setter::NonDigits],
                vec![],
                vec![Setter::Words, Setter::Repetitions],
            ];
            let inputs: Vec<Vec<String>> = vec![
                vec!["x1".into(), "y2".into()],
                vec!["a b".into(), "c1".into()],
                vec!["x1".into(), "y2".into(), "z_".into()],
            ];
            let mut ops = vec![];
            for i in 0..600usize {
                // the mask changes at every build, with a period that is not a divisor of 256
                let m = &masks[i % masks.len().min(if i % 7 == 0 { 2 } else { masks.len() })];
                let input = &inputs[i % inputs.len()];
                ops.push(Op::New { slot: i, cases: input.clone() });
                for st in m {
                    ops.push(Op::Set { slot: i, setter: st.clone() });
                }
                ops.push(Op::Build { slot: i });
            }
            // exactly two masks in strict alternation for 520 builds: 256*k switches between equal uses
            for i in 600..1120usize {
                let m = if i % 2 == 0 { vec![Setter::Digits] } else { vec![Setter::Words] };
                ops.push(Op::New { slot: i, cases: inputs[0].clone() });
                for st in m {
                    ops.push(Op::Set { slot: i, setter: st });
                }
                ops.push(Op::Build { slot: i });
            }
            // counter wrap-around: a probe input is used once, then exactly 256 (and later 512, 65,536 is out of
            // reach) configuration changes happen on other inputs, cycling through three configurations so that the
            // probe meets a different configuration than the first time
            let cycle: Vec<Vec<Setter>> = vec![vec![Setter::Digits], vec![Setter::Words], vec![Setter::Spaces, Setter::NonWords]];
            let probe: Vec<String> = vec!["q7".into(), "r 8".into()];
            let other: Vec<String> = vec!["x1".into(), "y2".into()];
            let mut slot = 1120usize;
            let mut push_build = |ops: &mut Vec<Op>, cases: &Vec<String>, m: &Vec<Setter>| {
                ops.push(Op::New { slot, cases: cases.clone() });
                for st in m {
                    ops.push(Op::Set { slot, setter: st.clone() });
                }
                ops.push(Op::Build { slot });
                slot += 1;
            };
            let mut wrap_ops = vec![];
            let mut j = 0usize; // index of the configuration in force
            push_build(&mut wrap_ops, &probe, &cycle[0]);
            for round in 0..2 {
                let _ = round;
                for _ in 0..256 {
                    j += 1;
                    push_build(&mut wrap_ops, &other, &cycle[j % 3]);
                }
                // the probe again, under the configuration in force (no further change)
                push_build(&mut wrap_ops, &probe, &cycle[j % 3]);
            }
            vec![
                spec(vec![ops], &mut rng, vec![], "run-to-completion"),
                spec(vec![wrap_ops], &mut rng, vec![], "run-to-completion"),
            ]
        }
    }
}

// ---------------------------------------------------------------------------------------
// Preemption episodes: instruction-granular preemption (step.rs) swept over small two-client worlds.
// Client 0 (the preempted one) builds a set whose characters cross class and range borders; client 1 (the one that
// runs in the gap) builds single characters of every kind. For every hook visit of client 0's build and every
// instruction count 1..=K_MAX after it (until the next hook is reached) one run parks client 0 exactly there, lets
// client 1 execute its whole history, and resumes client 0.
// ---------------------------------------------------------------------------------------

pub const PREEMPT_BASE: u64 = SCENARIO_BASE + 1000;

pub struct PreemptPair {
    pub victim: Vec<Op>,
    pub intruder: Vec<Op>,
    pub systematic: bool,
    /// one of the core worlds (swept in both tiers; in thorough also with the intruder parked mid-build)
    pub core: bool,
    /// the victim's first `skip_ops` operations are not swept (used for histories whose last operation re-does a
    /// build: only the visits of the repeated build are of interest)
    pub skip_ops: usize,
    pub mailboxes: usize,
    /// upper bound on the positions swept per visit for this world (0 = the tier's default); worlds whose runs are
    /// expensive are swept more coarsely
    pub positions_per_visit: usize,
}

const PREEMPT_ALPHA: [&str; 10] = ["a", "Z", "1", "_", ":", "[", "\u{e9}", " ", "\u{663}", "\u{3b2}"];

fn preempt_cfgs() -> Vec<Vec<Setter>> {
    vec![
        vec![Setter::Words],
        vec![Setter::Digits, Setter::Words, Setter::Spaces],
        vec![Setter::Digits],
        vec![Setter::Spaces, Setter::NonWords],
        vec![Setter::NonDigits, Setter::NonSpaces],
        vec![Setter::Words, Setter::Repetitions],
        vec![Setter::IgnoreCase, Setter::Words],
        vec![Setter::Repetitions],
        vec![Setter::Escape(false), Setter::Digits],
        vec![Setter::NoAnchors],
        vec![],
    ]
}

/// Every victim history starts with the build of a third, unrelated key (not swept): whatever the library may
/// remember from one build to the next, every run of the sweep then starts from the same state.
fn with_neutral_prefix(mut p: PreemptPair) -> PreemptPair {
    let mut ops = vec![Op::New { slot: 7, cases: vec!["q".to_string()] }, Op::Build { slot: 7 }];
    p.skip_ops += ops.len();
    ops.append(&mut p.victim);
    p.victim = ops;
    p
}

pub fn preempt_pairs(verif_seed: u64, tier: &str) -> Vec<PreemptPair> {
    preempt_pairs_raw(verif_seed, tier).into_iter().map(with_neutral_prefix).collect()
}

fn strs(x: &[&str]) -> Vec<String> {
    x.iter().map(|t| t.to_string()).collect()
}

fn pair_plain(v: &[&str], i: &[&str], cv: &[Setter], ci: &[Setter]) -> PreemptPair {
    PreemptPair {
        victim: plain_build(strs(v), cv.to_vec()),
        intruder: plain_build(strs(i), ci.to_vec()),
        systematic: true,
        core: false,
        skip_ops: 0,
        mailboxes: 0,
        positions_per_visit: 0,
    }
}

/// A build repeated on the same builder (or on a clone of it), where a result remembered from the first build
/// would be used, while the other client builds something else in the gap: only the repeated build is swept.
fn pair_rebuild(v: &[&str], i: &[&str], c: &[Setter], on_clone: bool) -> PreemptPair {
    let mut victim = plain_build(strs(v), c.to_vec());
    let skip = victim.len();
    if on_clone {
        victim.push(Op::Clone { from: 0, to: 1 });
        victim.push(Op::Build { slot: 1 });
    } else {
        victim.push(Op::Build { slot: 0 });
    }
    PreemptPair {
        victim,
        intruder: plain_build(strs(i), c.to_vec()),
        systematic: true,
        core: false,
        skip_ops: skip,
        mailboxes: 0,
        positions_per_visit: 0,
    }
}

/// The two clients work on a builder and its clone (whatever the clones share is shared across the threads): the
/// victim builds, clones, hands the clone over and builds again (swept); the intruder changes a setting on the clone
/// and builds it in the gap.
fn pair_shared(v: &[&str], c: &[Setter], extra: Setter) -> PreemptPair {
    let mut victim = plain_build(strs(v), c.to_vec());
    victim.push(Op::Clone { from: 0, to: 1 });
    victim.push(Op::Send { slot: 1, mailbox: 0 });
    let skip = victim.len();
    victim.push(Op::Build { slot: 0 });
    PreemptPair {
        victim,
        intruder: vec![Op::Recv { slot: 0, mailbox: 0 }, Op::Set { slot: 0, setter: extra }, Op::Build { slot: 0 }],
        systematic: true,
        core: false,
        skip_ops: skip,
        mailboxes: 1,
        positions_per_visit: 0,
    }
}

/// A bounded process-wide table overflows in the gap: the victim repeats a small build (only the repetition is
/// swept, coarsely), the intruder builds more than a thousand distinct test cases, twice (the first build fills
/// whatever table there is, the second starts with it full).
fn pair_overflow(n: usize) -> PreemptPair {
    let mut victim = plain_build(strs(&["ab", "cd1", "e f"]), vec![Setter::Digits]);
    let skip = victim.len();
    victim.push(Op::Build { slot: 0 });
    let big: Vec<String> = (0..n).map(|i| format!("{}{}", ["s", "t", "u"][i % 3], i)).collect();
    let mut intruder = plain_build(big, vec![]);
    intruder.push(Op::Build { slot: 0 });
    PreemptPair {
        victim,
        intruder,
        systematic: true,
        core: false,
        skip_ops: skip,
        mailboxes: 0,
        positions_per_visit: 40,
    }
}

fn preempt_pairs_raw(verif_seed: u64, tier: &str) -> Vec<PreemptPair> {
    let w = [Setter::Words];
    let dws = [Setter::Digits, Setter::Words, Setter::Spaces];
    let d = [Setter::Digits];
    let none: [Setter; 0] = [];
    let na = [Setter::NoAnchors];
    let rep = [Setter::Repetitions];
    let esc = [Setter::Escape(false)];
    // The core (quick and thorough). Victims move between the ranges of a class table, with and without a character
    // that lies between two ranges; intruders build single characters of every kind; sets of single characters form
    // character classes, and the same set moved by a power of two in code point lands in the same slot of any
    // direct-mapped table; unanchored builds go through the self-check with the regex crate.
    let mut out = vec![
        pair_plain(&["a1"], &[":", "["], &w, &w),
        pair_plain(&["1:a"], &["a"], &w, &w),
        pair_plain(&["a1"], &["1", " "], &dws, &dws),
        pair_plain(&["aZ"], &[":", "["], &w, &w),
        pair_plain(&["a 1"], &["a"], &dws, &dws),
        pair_plain(&["a", "b", "c"], &["\u{e1}", "\u{e2}", "\u{e3}"], &none, &none),
        pair_plain(&["a", "aa", "ab"], &["x", "xx", "xy"], &na, &na),
        pair_plain(&["aaa", "aa."], &["bbbb", "b$b"], &rep, &rep),
        pair_rebuild(&["a1"], &[":", "["], &w, false),
        pair_rebuild(&["1a"], &["a"], &dws, true),
        pair_shared(&["1a"], &none, Setter::Digits),
        pair_shared(&["a1", "b2"], &w, Setter::IgnoreCase),
        pair_plain(&["1a\u{663}"], &["\u{663}", "7"], &d, &d),
        // nested groups on both sides (whatever is pooled or reused while sub-expressions are rendered)
        pair_plain(&["abc", "abd", "ab", "xy", "xz"], &["pq", "pqr", "pqs", "yy", "yz"], &none, &none),
    ];
    for p in out.iter_mut() {
        p.core = true;
    }
    out.push(pair_overflow(1100));
    if tier == "thorough" {
        let victims: [&[&str]; 7] = [&["a1"], &["1a"], &["aZ"], &["a 1"], &["1:a"], &["a", "b", "c"], &["a", "aa", "ab"]];
        let intruders: [&[&str]; 5] = [&[":", "["], &["a"], &["1", " "], &["\u{e1}", "\u{e2}", "\u{e3}"], &["x", "xx", "xy"]];
        let cfgs: [&[Setter]; 5] = [&w, &dws, &none, &na, &esc];
        for (vi, v) in victims.iter().enumerate() {
            for (ii, i) in intruders.iter().enumerate() {
                for (ci, c) in cfgs.iter().enumerate() {
                    // a third of the cross product, spread evenly
                    if (vi + ii + ci) % 3 == 0 {
                        out.push(pair_plain(v, i, c, c));
                    }
                }
            }
            out.push(pair_rebuild(v, intruders[vi % 5], cfgs[vi % 5], vi % 2 == 1));
            out.push(pair_shared(v, cfgs[(vi + 1) % 5], if vi % 2 == 0 { Setter::Digits } else { Setter::NoAnchors }));
        }
    }
    // seeded part
    let cfgs = preempt_cfgs();
    let mut rng = Rng::new(derive(verif_seed, &[0x5052454D, 1]));
    let n = if tier == "thorough" { 60 } else { 3 };
    for _ in 0..n {
        let word = |rng: &mut Rng, max: u64| {
            let len = 1 + rng.below(max);
            (0..len).map(|_| *rng.pick(&PREEMPT_ALPHA)).collect::<String>()
        };
        let nv = 1 + rng.below(2);
        let victim: Vec<String> = (0..nv).map(|_| word(&mut rng, 3)).collect();
        let ni = 1 + rng.below(3);
        let intruder: Vec<String> = (0..ni)
            .map(|_| {
                let m = 1 + rng.below(2);
                word(&mut rng, m)
            })
            .collect();
        let cv = rng.pick(&cfgs).clone();
        let ci = if rng.below(3) == 0 { rng.pick(&cfgs).clone() } else { cv.clone() };
        out.push(PreemptPair {
            victim: plain_build(victim, cv),
            intruder: plain_build(intruder, ci),
            systematic: false,
            core: false,
            skip_ops: 0,
            mailboxes: 0,
            positions_per_visit: 0,
        });
    }
    out
}

/// Worlds of the cold-start sweep (no neutral prefix, no warm-up: one fresh process per position). Their characters
/// touch every lazily initialised table: the three class tables, escaping of metacharacters and control characters,
/// character classes, repetition detection.
pub fn cold_pairs() -> Vec<PreemptPair> {
    let dws = [Setter::Digits, Setter::Words, Setter::Spaces];
    let none: [Setter; 0] = [];
    let rw = [Setter::Repetitions, Setter::Words];
    vec![
        pair_plain(&["a1 $\t"], &["$\t", ":"], &dws, &dws),
        pair_plain(&["a", "b", "c."], &["\u{e1}", "b", "c$"], &none, &none),
        pair_plain(&["aaa", "aa."], &["b$b", "1"], &rw, &rw),
        pair_plain(&["a", "aa", "ab"], &["x", "xx", "xy"], &[Setter::NoAnchors], &[Setter::NoAnchors]),
        // both clients meet the same characters for the first time in the process (several test cases share their
        // first one): whatever is interned, numbered or registered on first sight is first seen by both at once
        pair_plain(&["xa", "xbb", "xccc", "xdddd"], &["xa", "xbb", "xccc", "xdddd"], &none, &none),
    ]
}

/// One run of the sweep: client 0 is parked `steps` instructions after its `visit`-th hook call, client 1 runs its
/// whole history in the gap. `intruder_parked_at` > 0: client 1 starts first and is itself parked at that hook
/// visit of its build until client 0 is preempted (so it resumes in the middle of its own build).
pub fn preempt_run(pair: &PreemptPair, hash_seeds: (u64, u64), visit: u64, steps: u32, intruder_parked_at: u64) -> RunSpec {
    preempt_run_via(pair, hash_seeds, visit, steps, intruder_parked_at, 0)
}

pub fn preempt_run_via(pair: &PreemptPair, hash_seeds: (u64, u64), visit: u64, steps: u32, intruder_parked_at: u64, via: u8) -> RunSpec {
    preempt_run_full(pair, hash_seeds, visit, steps, intruder_parked_at, false, via)
}

/// `intruder_visit` > 0: the intruder hands the baton back at that visit of its own history. With `victim_first`
/// false it starts first and waits there until the victim is preempted (then resumes in the middle of its build);
/// with `victim_first` true the victim starts, is preempted, the intruder runs only up to that visit, the victim
/// then runs to its end and the intruder finishes last (two preemptions: what the intruder did before its visit is
/// seen by the rest of the victim's run, and what the victim did after its own preemption by the rest of the
/// intruder's).
pub fn preempt_run_full(pair: &PreemptPair, hash_seeds: (u64, u64), visit: u64, steps: u32, intruder_visit: u64, victim_first: bool, via: u8) -> RunSpec {
    let intruder_parked_at = intruder_visit;
    let mut preempts = vec![];
    if intruder_parked_at > 0 && via != 2 {
        preempts.push(Preempt { client: 1, visit: intruder_parked_at, steps: 0, to: 0, via: 0 });
    }
    if visit > 0 {
        preempts.push(Preempt { client: 0, visit, steps, to: 1, via });
    }
    RunSpec {
        clients: vec![
            ClientSpec { hash_seed: hash_seeds.0, ops: pair.victim.clone() },
            ClientSpec { hash_seed: hash_seeds.1, ops: pair.intruder.clone() },
        ],
        sites: vec![],
        sched: SchedSpec::List { decisions: vec![if intruder_parked_at > 0 && !victim_first { 1 } else { 0 }] },
        mailboxes: pair.mailboxes,
        preempts,
    }
}
