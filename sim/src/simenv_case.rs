//! One simulated process lifetime of the real `grex` binary (or of `fromfile_probe`) under the
//! simenv shim: the case description (also the replay format), the plan handed to the shim, the
//! parsed call log, and the oracle.

use crate::model::{guarded, Cfg, Outcome};
use grex::RegExpBuilder;
use serde_json::{json, Value};
use std::io::Write;
use std::process::{Command, Stdio};

pub fn hex(b: &[u8]) -> String {
    if b.is_empty() {
        return "-".to_string();
    }
    let mut s = String::with_capacity(b.len() * 2);
    for x in b {
        s.push_str(&format!("{:02x}", x));
    }
    s
}

pub fn unhex(s: &str) -> Vec<u8> {
    if s == "-" {
        return vec![];
    }
    let b = s.as_bytes();
    let mut out = Vec::with_capacity(b.len() / 2);
    let mut i = 0;
    while i + 1 < b.len() {
        if let Ok(v) = u8::from_str_radix(&s[i..i + 2], 16) {
            out.push(v);
        }
        i += 2;
    }
    out
}

#[derive(Clone, Debug, PartialEq, Eq)]
pub enum FileMode {
    /// a regular file with the planned content, materialised at the planned path for the run; `open` of it
    /// is intercepted so that faults can be layered over its descriptor (historical name: it used to be a memfd)
    Memfd,
    /// the path does not exist (open fails with ENOENT)
    Absent,
    /// the path is a real directory (`/`): the kernel's own EISDIR
    RealDir,
    /// a real file in the real file system (no faults can be layered on it): an anchor that memfd-backed
    /// files behave like ordinary ones
    RealFs,
    /// no planned path at all
    None,
}

#[derive(Clone, Debug)]
pub struct Case {
    pub target: String,  // "grex" | "probe"
    pub channel: String, // "args" | "stdin" | "file" | "file-via-stdin" | "probe" | "clap-error"
    pub argv: Vec<String>,
    pub cfg: Cfg,
    pub arg_lines: Vec<String>,
    pub stdin: Vec<u8>,
    pub path: String,
    pub file: Vec<u8>,
    pub file_mode: FileMode,
    pub tty: u8,
    /// stdout / stderr claim to be terminals (the printed pattern must not depend on it)
    pub tty_out: bool,
    pub seed: u64,
    pub events: Vec<(String, String, i64)>,
    pub dchunk: Vec<(String, i64)>,
    /// extra environment variables of the process (the output must not depend on them)
    pub env: Vec<(String, String)>,
    /// file name of the planned file inside its per-run directory ("" = cases.txt)
    pub file_name: String,
    /// what fstat(0) reports for stdin: 0 as the kernel says, 1 regular file, 2 fifo, 3 character device, 4 socket
    pub stdin_kind: u8,
    /// what the planned file claims to be: 0 a regular file, 2 a FIFO (size 0, no seeking, no positional reads —
    /// `grex -f <(cmd)`), 3 a character device (size 0); its content is delivered all the same
    pub file_kind: u8,
    /// regular-file stdin only: bytes of `stdin` already consumed before the program starts (its input is the rest)
    pub stdin_offset: usize,
    /// name the planned file relative to the working directory (the process is started in the file's directory)
    pub relative_path: bool,
    /// working directory of the process (set by `materialise`)
    pub cwd: Option<String>,
    /// file name as raw bytes (hex) when it is not valid UTF-8; overrides `file_name`
    pub file_name_hex: String,
    /// address-space limit of the process in MiB (0 = none): the environment a CI job or a service manager may impose
    pub rlimit_as_mb: u64,
    /// the argument vector and the planned path as bytes (set by `materialise`; a path need not be UTF-8)
    pub argv_os: Vec<Vec<u8>>,
    pub path_bytes: Vec<u8>,
    pub note: String,
}

impl Case {
    pub fn to_json(&self) -> Value {
        json!({
            "target": self.target, "channel": self.channel, "argv": self.argv, "cfg": self.cfg.encode(),
            "arg_lines": self.arg_lines, "stdin_hex": hex(&self.stdin), "stdin_text": String::from_utf8_lossy(&self.stdin[..self.stdin.len().min(200)]),
            "path": self.path, "file_hex": hex(&self.file), "file_text": String::from_utf8_lossy(&self.file[..self.file.len().min(200)]),
            "file_mode": match self.file_mode { FileMode::Memfd => "memfd", FileMode::Absent => "absent", FileMode::RealDir => "realdir", FileMode::RealFs => "realfs", FileMode::None => "none" },
            "env": self.env.iter().map(|(k, v)| json!([k, v])).collect::<Vec<_>>(),
            "file_name": self.file_name, "stdin_kind": self.stdin_kind, "file_kind": self.file_kind, "stdin_offset": self.stdin_offset, "file_name_hex": self.file_name_hex, "rlimit_as_mb": self.rlimit_as_mb, "relative_path": self.relative_path,
            "tty": self.tty, "tty_out": self.tty_out, "seed": self.seed.to_string(),
            "events": self.events.iter().map(|(c, k, a)| json!([c, k, a])).collect::<Vec<_>>(),
            "dchunk": self.dchunk.iter().map(|(c, n)| json!([c, n])).collect::<Vec<_>>(),
            "note": self.note,
        })
    }

    pub fn from_json(v: &Value) -> Option<Case> {
        let strs = |k: &str| -> Vec<String> {
            v.get(k)
                .and_then(|x| x.as_array())
                .map(|a| a.iter().filter_map(|s| s.as_str().map(|s| s.to_string())).collect())
                .unwrap_or_default()
        };
        Some(Case {
            target: v.get("target")?.as_str()?.to_string(),
            channel: v.get("channel")?.as_str()?.to_string(),
            argv: strs("argv"),
            cfg: Cfg::decode(v.get("cfg")?.as_str()?)?,
            arg_lines: strs("arg_lines"),
            stdin: unhex(v.get("stdin_hex")?.as_str()?),
            path: v.get("path")?.as_str()?.to_string(),
            file: unhex(v.get("file_hex")?.as_str()?),
            file_mode: match v.get("file_mode")?.as_str()? {
                "memfd" => FileMode::Memfd,
                "absent" => FileMode::Absent,
                "realdir" => FileMode::RealDir,
                "realfs" => FileMode::RealFs,
                _ => FileMode::None,
            },
            tty: v.get("tty").and_then(|x| x.as_u64()).unwrap_or(0) as u8,
            tty_out: v.get("tty_out").and_then(|x| x.as_bool()).unwrap_or(false),
            seed: v.get("seed")?.as_str()?.parse().ok()?,
            events: v
                .get("events")?
                .as_array()?
                .iter()
                .filter_map(|e| Some((e.get(0)?.as_str()?.to_string(), e.get(1)?.as_str()?.to_string(), e.get(2)?.as_i64()?)))
                .collect(),
            dchunk: v
                .get("dchunk")
                .and_then(|x| x.as_array())
                .map(|a| {
                    a.iter()
                        .filter_map(|e| Some((e.get(0)?.as_str()?.to_string(), e.get(1)?.as_i64()?)))
                        .collect()
                })
                .unwrap_or_default(),
            env: v
                .get("env")
                .and_then(|x| x.as_array())
                .map(|a| {
                    a.iter()
                        .filter_map(|e| Some((e.get(0)?.as_str()?.to_string(), e.get(1)?.as_str()?.to_string())))
                        .collect()
                })
                .unwrap_or_default(),
            file_name: v.get("file_name").and_then(|x| x.as_str()).unwrap_or("").to_string(),
            stdin_kind: v.get("stdin_kind").and_then(|x| x.as_u64()).unwrap_or(0) as u8,
            file_kind: v.get("file_kind").and_then(|x| x.as_u64()).unwrap_or(0) as u8,
            stdin_offset: v.get("stdin_offset").and_then(|x| x.as_u64()).unwrap_or(0) as usize,
            relative_path: v.get("relative_path").and_then(|x| x.as_bool()).unwrap_or(false),
            cwd: None,
            file_name_hex: v.get("file_name_hex").and_then(|x| x.as_str()).unwrap_or("").to_string(),
            rlimit_as_mb: v.get("rlimit_as_mb").and_then(|x| x.as_u64()).unwrap_or(0),
            argv_os: vec![],
            path_bytes: vec![],
            note: v.get("note").and_then(|x| x.as_str()).unwrap_or("").to_string(),
        })
    }

    pub fn plan_text(&self) -> String {
        let mut p = String::new();
        p.push_str(&format!("seed {}\n", self.seed));
        p.push_str(&format!("tty {}\n", self.tty));
        if self.tty_out {
            p.push_str("tty1 1\ntty2 1\n");
        }
        if self.stdin_kind > 0 {
            p.push_str(&format!("stdinkind {}\n", self.stdin_kind));
        }
        if self.stdin_kind == 1 && self.stdin_offset > 0 {
            p.push_str(&format!("stdinoffset {}\n", self.stdin_offset));
        }
        p.push_str(&format!("stdin {}\n", hex(&self.stdin)));
        match self.file_mode {
            FileMode::Memfd | FileMode::Absent | FileMode::RealDir => {
                // the planned path is a real path (regular file / nothing / a directory): open passes through
                // to the kernel and the descriptor is tracked for the read and stat scripts
                let pb: &[u8] = if self.path_bytes.is_empty() { self.path.as_bytes() } else { &self.path_bytes };
                p.push_str(&format!("path {}\n", hex(pb)));
                p.push_str(&format!("real {}\n", hex(pb)));
                if self.file_kind > 0 && self.file_mode == FileMode::Memfd {
                    p.push_str(&format!("filekind {}\n", self.file_kind));
                }
            }
            FileMode::None | FileMode::RealFs => {}
        }
        for (c, n) in &self.dchunk {
            p.push_str(&format!("dchunk {} {}\n", c, n));
        }
        for (c, k, a) in &self.events {
            p.push_str(&format!("ev {} {} {}\n", c, k, a));
        }
        p
    }
}

// ---------------------------------------------------------------------------------------
// Running a case
// ---------------------------------------------------------------------------------------

#[derive(Clone, Debug, Default)]
pub struct Observed {
    pub exit_code: Option<i32>,
    pub signal: Option<i32>,
    pub stdout_pipe: Vec<u8>,
    pub stdout_accepted: Vec<u8>,
    pub stderr_accepted: Vec<u8>,
    pub log: Vec<String>,
    pub started: bool,
    pub ended: bool,
    pub delivered_r0: usize,
    pub delivered_rf: usize,
    pub eof_injected_r0: bool,
    pub eof_injected_rf: bool,
    pub hard_err: Vec<(String, i64)>, // (class, errno) of hard (non-EINTR) errors that fired
    pub fired: Vec<String>,           // "class:kind" for every scripted event that fired
    pub records: usize,
    pub reads_r0: usize,
    pub reads_rf: usize,
    pub writes_w1: usize,
    pub opens: usize,
    pub getrandom: usize,
    pub timed_out: bool,
    /// the shim stopped the program: too many calls of one class after the fault script was exhausted
    pub livelock: Option<String>,
    pub script_left: Vec<(String, usize, usize)>,
}

fn field<'a>(line: &'a str, name: &str) -> Option<&'a str> {
    let pat = format!(" {}=", name);
    let i = line.find(&pat)? + pat.len();
    let rest = &line[i..];
    Some(rest.split(' ').next().unwrap_or(""))
}

pub struct Binaries {
    pub grex: String,
    pub probe: String,
    pub shim: String,
    /// directory under which each worker slot materialises its planned file
    pub scratch: String,
}

/// Placeholder for the planned path in generated cases and replay files; `run_case` substitutes the real
/// per-slot path (fixed width, so that stream lengths do not depend on the slot).
pub const PLANNED_PATH: &str = "/nonexistent-simenv/inputs/cases.txt";

/// Puts the planned file system object in place and returns the case with the real path substituted.
pub fn materialise(case: &Case, bins: &Binaries, slot: usize) -> Result<Case, String> {
    use std::os::unix::ffi::OsStrExt;
    let dir = format!("{}/w{:02}", bins.scratch, slot);
    let name: Vec<u8> = if !case.file_name_hex.is_empty() {
        unhex(&case.file_name_hex)
    } else if case.file_name.is_empty() {
        b"cases.txt".to_vec()
    } else {
        case.file_name.as_bytes().to_vec()
    };
    // a relative name is resolved against the working directory, which run_case sets to the slot directory
    let mut real: Vec<u8> = if case.relative_path { vec![] } else { format!("{}/", dir).into_bytes() };
    real.extend_from_slice(&name);
    let mut on_disk: Vec<u8> = format!("{}/", dir).into_bytes();
    on_disk.extend_from_slice(&name);
    let on_disk_path = std::path::PathBuf::from(std::ffi::OsStr::from_bytes(&on_disk));
    let _ = std::fs::remove_dir_all(&dir);
    std::fs::create_dir_all(&dir).map_err(|e| format!("{}: {}", dir, e))?;
    if let Some(parent) = on_disk_path.parent() {
        std::fs::create_dir_all(parent).map_err(|e| format!("{:?}: {}", parent, e))?;
    }
    let mut c = case.clone();
    let ph = PLANNED_PATH.as_bytes();
    let sub_bytes = |src: &[u8]| -> Vec<u8> {
        let mut out = vec![];
        let mut i = 0;
        while i < src.len() {
            if src[i..].starts_with(ph) {
                out.extend_from_slice(&real);
                i += ph.len();
            } else {
                out.push(src[i]);
                i += 1;
            }
        }
        out
    };
    c.argv_os = c.argv.iter().map(|a| sub_bytes(a.as_bytes())).collect();
    c.argv = c.argv_os.iter().map(|a| String::from_utf8_lossy(a).to_string()).collect();
    c.stdin = sub_bytes(&c.stdin);
    if c.path == PLANNED_PATH {
        c.path_bytes = real.clone();
        c.path = String::from_utf8_lossy(&real).to_string();
    }
    match c.file_mode {
        FileMode::Memfd | FileMode::RealFs => std::fs::write(&on_disk_path, &c.file).map_err(|e| format!("{:?}: {}", on_disk_path, e))?,
        FileMode::RealDir => std::fs::create_dir_all(&on_disk_path).map_err(|e| format!("{:?}: {}", on_disk_path, e))?,
        FileMode::Absent | FileMode::None => {}
    }
    c.cwd = Some(dir);
    Ok(c)
}

/// Runs a case in a worker slot; returns what was observed and the materialised case (real path substituted),
/// which is the one the oracle must be asked about.
pub fn run_in_slot(case: &Case, bins: &Binaries, timeout_s: u64, slot: usize) -> Result<(Observed, Case), String> {
    let m = materialise(case, bins, slot)?;
    let o = run_case(&m, bins, timeout_s)?;
    let _ = std::fs::remove_dir_all(format!("{}/w{:02}", bins.scratch, slot));
    Ok((o, m))
}

pub fn run_case(case: &Case, bins: &Binaries, timeout_s: u64) -> Result<Observed, String> {
    let exe = if case.target == "probe" { &bins.probe } else { &bins.grex };
    let mut cmd = Command::new(exe);
    if let Some(d) = &case.cwd {
        cmd.current_dir(d);
    }
    {
        use std::os::unix::ffi::OsStrExt;
        use std::os::unix::process::CommandExt;
        if case.argv_os.is_empty() {
            cmd.args(&case.argv);
        } else {
            for a in &case.argv_os {
                cmd.arg(std::ffi::OsStr::from_bytes(a));
            }
        }
        if case.rlimit_as_mb > 0 {
            let bytes = case.rlimit_as_mb << 20;
            unsafe {
                cmd.pre_exec(move || {
                    let lim = libc::rlimit { rlim_cur: bytes, rlim_max: bytes };
                    libc::setrlimit(libc::RLIMIT_AS, &lim);
                    Ok(())
                });
            }
        }
    }
    let mut child = cmd
        .env_clear()
        .envs(case.env.iter().map(|(k, v)| (k.clone(), v.clone())))
        .env("LD_PRELOAD", &bins.shim)
        .env("SIMENV_ACTIVE", "1")
        .stdin(Stdio::piped())
        .stdout(Stdio::piped())
        .stderr(Stdio::piped())
        .spawn()
        .map_err(|e| format!("spawn {}: {}", exe, e))?;
    let pid = child.id() as i32;
    {
        let mut si = child.stdin.take().unwrap();
        let _ = si.write_all(case.plan_text().as_bytes());
    }
    // watchdog: a plan always ends, so a correct program always terminates; a hang is killed
    let done = std::sync::Arc::new(std::sync::atomic::AtomicBool::new(false));
    let killed = std::sync::Arc::new(std::sync::atomic::AtomicBool::new(false));
    let (d2, k2) = (done.clone(), killed.clone());
    let wd = std::thread::spawn(move || {
        let start = std::time::Instant::now();
        while !d2.load(std::sync::atomic::Ordering::SeqCst) {
            if start.elapsed().as_secs() >= timeout_s {
                k2.store(true, std::sync::atomic::Ordering::SeqCst);
                unsafe {
                    libc::kill(pid, libc::SIGKILL);
                }
                break;
            }
            std::thread::sleep(std::time::Duration::from_millis(5));
        }
    });
    let out = child.wait_with_output().map_err(|e| e.to_string())?;
    done.store(true, std::sync::atomic::Ordering::SeqCst);
    let _ = wd.join();
    let mut o = Observed::default();
    o.timed_out = killed.load(std::sync::atomic::Ordering::SeqCst);
    o.exit_code = out.status.code();
    {
        use std::os::unix::process::ExitStatusExt;
        o.signal = out.status.signal();
    }
    o.stdout_pipe = out.stdout;
    let log_text = String::from_utf8_lossy(&out.stderr).to_string();
    // every record is parsed; only the first KEEP_HEAD and the last KEEP_TAIL are stored (a run chunked into
    // single bytes, or one stopped by the step bound, has hundreds of thousands of records)
    const KEEP_HEAD: usize = 400;
    const KEEP_TAIL: usize = 40;
    let total_lines = log_text.lines().count();
    o.records = total_lines;
    for (ln, line) in log_text.lines().enumerate() {
        let keep = ln < KEEP_HEAD || ln + KEEP_TAIL >= total_lines;
        if ln == KEEP_HEAD && total_lines > KEEP_HEAD + KEEP_TAIL {
            o.log.push(format!("... {} records not stored ...", total_lines - KEEP_HEAD - KEEP_TAIL));
        }
        if !line.starts_with('@') {
            // anything on the real stderr that is not a shim record (e.g. the dynamic loader)
            if keep {
                o.log.push(format!("?{}", line));
            }
            continue;
        }
        if keep {
            o.log.push(if line.len() > 600 { format!("{}…", &line[..600]) } else { line.to_string() });
        }
        if line.starts_with("@START") {
            o.started = true;
        } else if line.starts_with("@END") {
            o.ended = true;
            for tok in line.split(' ').skip(1) {
                if let Some((c, frac)) = tok.split_once('=') {
                    if let Some((a, b)) = frac.split_once('/') {
                        if let (Ok(a), Ok(b)) = (a.parse::<usize>(), b.parse::<usize>()) {
                            o.script_left.push((c.to_string(), a, b));
                        }
                    }
                }
            }
        } else if line.starts_with("@LIVELOCK") {
            o.livelock = Some(line.to_string());
        } else if line.starts_with("@G") {
            o.getrandom += 1;
        } else if line.starts_with("@R ") {
            let cls = line.split(' ').nth(1).unwrap_or("");
            let ret: i64 = field(line, "ret").and_then(|x| x.parse().ok()).unwrap_or(0);
            let kind = field(line, "kind").unwrap_or("");
            if cls == "r0" {
                o.reads_r0 += 1;
                if ret > 0 {
                    o.delivered_r0 += ret as usize;
                }
                if kind == "eof" {
                    o.eof_injected_r0 = true;
                }
            } else {
                o.reads_rf += 1;
                if ret > 0 {
                    o.delivered_rf += ret as usize;
                }
                if kind == "eof" {
                    o.eof_injected_rf = true;
                }
            }
            if matches!(kind, "chunk" | "eintr" | "err" | "eof" | "dchunk") {
                o.fired.push(format!("{}:{}", cls, kind));
            }
            if kind == "err" {
                o.hard_err.push((cls.to_string(), field(line, "errno").and_then(|x| x.parse().ok()).unwrap_or(0)));
            }
        } else if line.starts_with("@W ") {
            let cls = line.split(' ').nth(1).unwrap_or("");
            let kind = field(line, "kind").unwrap_or("");
            if matches!(kind, "chunk" | "eintr" | "err" | "dchunk") {
                o.fired.push(format!("{}:{}", cls, kind));
            }
            if kind == "err" {
                o.hard_err.push((cls.to_string(), field(line, "errno").and_then(|x| x.parse().ok()).unwrap_or(0)));
            }
            if let Some(d) = field(line, "data") {
                let bytes = unhex(d);
                if cls == "w1" {
                    o.writes_w1 += 1;
                    o.stdout_accepted.extend(bytes);
                } else {
                    o.stderr_accepted.extend(bytes);
                }
            } else if kind != "eintr" && kind != "err" {
                // zero-length write: "data=" followed by nothing
                if cls == "w1" {
                    o.writes_w1 += 1;
                }
            }
        } else if line.starts_with("@O ") {
            o.opens += 1;
            let kind = field(line, "kind").unwrap_or("");
            if kind == "eintr" {
                o.fired.push("op:eintr".into());
            }
            if kind == "err" {
                o.fired.push("op:err".into());
                o.hard_err.push(("op".into(), field(line, "errno").and_then(|x| x.parse().ok()).unwrap_or(0)));
            }
            if kind == "absent" {
                o.hard_err.push(("op".into(), 2));
            }
        } else if line.starts_with("@S ") {
            let kind = field(line, "kind").unwrap_or("");
            if kind == "size" || kind == "err" || kind == "eintr" {
                o.fired.push(format!("st:{}", kind));
            }
        }
    }
    Ok(o)
}

// ---------------------------------------------------------------------------------------
// Oracle
// ---------------------------------------------------------------------------------------

/// The documented line rule, implemented independently of `str::lines`:
/// split at `\n`; drop one `\r` immediately before it; the piece after a final `\n` is not a line;
/// a bare `\r` elsewhere is kept.
pub fn model_lines(content: &str) -> Vec<String> {
    let mut out = vec![];
    let mut cur = String::new();
    let mut chars = content.chars().peekable();
    let mut pending = false; // is there an unterminated piece?
    while let Some(c) = chars.next() {
        if c == '\n' {
            if cur.ends_with('\r') {
                cur.pop();
            }
            out.push(std::mem::take(&mut cur));
            pending = false;
        } else {
            cur.push(c);
            pending = true;
        }
    }
    if pending {
        out.push(cur);
    }
    out
}

/// The library called in-process for a list of test cases and settings.
pub fn library_result(lines: &[String], cfg: &Cfg) -> Outcome {
    let lines = lines.to_vec();
    let setters = cfg.canonical_setters();
    match guarded(move || {
        let mut b = RegExpBuilder::from(&lines);
        for s in &setters {
            s.apply_real(&mut b);
        }
        b.build()
    }) {
        Ok(s) => Outcome::Ok(s),
        Err(m) => Outcome::Panic(m),
    }
}

#[derive(Clone, Debug, PartialEq)]
pub enum Expect {
    /// exit 0, stdout exactly these bytes, stderr empty
    Output(Vec<u8>),
    /// non-zero exit (not 101, no signal), stdout empty, one-line error, no panic
    Unusable(String),
    /// a clap usage error: non-zero exit, stdout empty, first stderr line starts with "error:"
    ClapError,
    /// either a faithful output or a clean rejection (a fault that may legitimately be surfaced or absorbed)
    Either(Vec<u8>, String),
    /// the library itself panics for these lines and settings: not C12's business, not judged
    LibraryPanics(String),
    /// stdout refused bytes (ENOSPC / EIO): the program must not report success — unless it got the whole faithful
    /// result (these bytes) accepted after all, by writing again
    NoSilentSuccess(Option<Vec<u8>>),
    /// outside the property (probe only): logged, never judged
    NotJudged(String),
}

pub const EBADF: i64 = 9;

/// What the property requires for this case given what the simulated OS actually did.
pub fn expectation(case: &Case, o: &Observed) -> Expect {
    if case.channel == "clap-error" {
        return Expect::ClapError;
    }
    // Hard write failures on stdout/stderr are outside the property as far as the *form* of the reaction goes (the
    // pinned tree panics there). One thing follows from the property all the same: exit status 0 belongs to a result
    // that was printed. A device that refuses the bytes (ENOSPC, EIO) and a program that then reports success has
    // lost the result silently. (EPIPE is left alone: leaving quietly when the reader has gone is a common convention.)
    if o.hard_err.iter().any(|(c, e)| c == "w1" && (*e == 28 || *e == 5)) {
        return match expectation_without_write_failures(case, o) {
            Expect::Output(b) | Expect::Either(b, _) => Expect::NoSilentSuccess(Some(b)),
            _ => Expect::NoSilentSuccess(None),
        };
    }
    if o.hard_err.iter().any(|(c, _)| c == "w1" || c == "w2") {
        return Expect::NotJudged("stdout/stderr failed hard".into());
    }
    expectation_without_write_failures(case, o)
}

fn expectation_without_write_failures(case: &Case, o: &Observed) -> Expect {
    if case.tty != 0 {
        return Expect::NotJudged("stdin is a terminal".into());
    }
    // Under an address-space limit a failing allocation aborts the process (Rust's allocation-error handler): running
    // out of a deliberately small memory budget says nothing about the property.
    if case.rlimit_as_mb > 0 && (o.signal == Some(6) || String::from_utf8_lossy(&o.stderr_accepted).contains("memory allocation of")) {
        return Expect::NotJudged("allocation failed under the address-space limit".into());
    }
    // a regular-file stdin may have been partly consumed by whoever started the program: its input is the rest
    let off = if case.stdin_kind == 1 { case.stdin_offset.min(case.stdin.len()) } else { 0 };
    let stdin_eff: Vec<u8> = if o.eof_injected_r0 || o.hard_err.iter().any(|(c, e)| c == "r0" && *e == EBADF) {
        case.stdin[off..(off + o.delivered_r0).min(case.stdin.len())].to_vec()
    } else {
        case.stdin[off..].to_vec()
    };
    let file_eff: Vec<u8> = if o.eof_injected_rf {
        case.file[..o.delivered_rf.min(case.file.len())].to_vec()
    } else {
        case.file.clone()
    };
    // hard errors on input: std maps EBADF on stdin to end-of-stream, everything else is an error
    let hard_in: Vec<&(String, i64)> = o
        .hard_err
        .iter()
        .filter(|(c, e)| (c == "r0" && *e != EBADF) || c == "rf" || c == "op")
        .collect();
    let stat_fault = o.fired.iter().any(|f| f == "st:err" || f == "st:eintr");

    let content: Option<Vec<u8>> = match case.channel.as_str() {
        "args" => None,
        "stdin" => Some(stdin_eff.clone()),
        "file" | "probe" => match case.file_mode {
            FileMode::Memfd | FileMode::RealFs => Some(file_eff.clone()),
            FileMode::Absent => return Expect::Unusable("file does not exist".into()),
            FileMode::RealDir => return Expect::Unusable("path is a directory".into()),
            FileMode::None => return Expect::NotJudged("no planned file".into()),
        },
        "file-via-stdin" => {
            let p = match String::from_utf8(stdin_eff.clone()) {
                Ok(s) => s,
                Err(_) => return Expect::Unusable("path on stdin is not valid UTF-8".into()),
            };
            let planned: &[u8] = if case.path_bytes.is_empty() { case.path.as_bytes() } else { &case.path_bytes };
            if p.trim().as_bytes() != planned {
                // a truncated or different path: whatever it names in the real file system is not a usable input
                // (planned paths are chosen so that every proper prefix is absent or a directory)
                return Expect::Unusable(format!("stdin names {:?}, not the planned file", p.trim()));
            }
            match case.file_mode {
                FileMode::Memfd | FileMode::RealFs => Some(file_eff.clone()),
                FileMode::Absent => return Expect::Unusable("file does not exist".into()),
                FileMode::RealDir => return Expect::Unusable("path is a directory".into()),
                FileMode::None => return Expect::NotJudged("no planned file".into()),
            }
        }
        _ => return Expect::NotJudged("unknown channel".into()),
    };
    if !hard_in.is_empty() {
        return Expect::Unusable(format!("hard I/O error {:?}", hard_in));
    }
    let lines: Vec<String> = match &content {
        None => case.arg_lines.clone(),
        Some(bytes) => match std::str::from_utf8(bytes) {
            Ok(s) => model_lines(s),
            Err(_) => return Expect::Unusable("input is not valid UTF-8".into()),
        },
    };
    if lines.is_empty() {
        return Expect::Unusable("no test cases".into());
    }
    let cfg = if case.target == "probe" { case.cfg.clone() } else { case.cfg.clone() };
    match library_result(&lines, &cfg) {
        Outcome::Ok(s) => {
            let bytes = if case.target == "probe" {
                format!("OK {}\n", Value::String(s)).into_bytes()
            } else {
                format!("{}\n", s).into_bytes()
            };
            if stat_fault {
                Expect::Either(bytes, "stat on the open file failed".into())
            } else {
                Expect::Output(bytes)
            }
        }
        Outcome::Panic(m) => Expect::LibraryPanics(m),
    }
}

fn strip_ansi(s: &str) -> String {
    let mut out = String::new();
    let mut chars = s.chars().peekable();
    while let Some(c) = chars.next() {
        if c == '\u{1b}' && chars.peek() == Some(&'[') {
            chars.next();
            for d in chars.by_ref() {
                if d.is_ascii_alphabetic() {
                    break;
                }
            }
        } else {
            out.push(c);
        }
    }
    out
}

#[derive(Clone, Debug)]
pub struct Verdict {
    pub class: Option<String>,
    pub detail: String,
    pub expect: Expect,
}

/// `from_file` must behave like `from()` on the file's lines: for a file without lines that is whatever
/// `from(&[])` does today (a panic with some message). For files that cannot be read or decoded the property
/// only requires that no pattern is returned; the wording of those panics is not part of it.
fn required_from_file_message(reason: &str) -> Option<String> {
    if reason.contains("no test cases") {
        let empty: Vec<String> = vec![];
        guarded(move || {
            let _ = RegExpBuilder::from(&empty);
        })
        .err()
    } else {
        None
    }
}

fn clean_rejection(case: &Case, o: &Observed) -> Result<(), (String, String)> {
    clean_rejection_because(case, o, "")
}

fn clean_rejection_because(case: &Case, o: &Observed, reason: &str) -> Result<(), (String, String)> {
    let err_text = String::from_utf8_lossy(&o.stderr_accepted).to_string();
    if let Some(s) = o.signal {
        return Err(("killed_by_signal".into(), format!("signal {}", s)));
    }
    if case.target == "probe" {
        // the library's from_file: unusable input must panic (documented), never return a pattern
        let out = String::from_utf8_lossy(&o.stdout_accepted).to_string();
        if let Some(rest) = out.strip_prefix("PANIC ") {
            if let Some(want) = required_from_file_message(reason) {
                let got: String = serde_json::from_str(rest.trim()).unwrap_or_default();
                if got != want {
                    return Err(("from_file_unlike_from".into(), format!("panicked with {:?}, from() on the same (empty) list panics with {:?}", got, want)));
                }
            }
            return Ok(());
        }
        return Err(("from_file_accepted_unusable_input".into(), format!("probe printed {:?}", out)));
    }
    if err_text.contains("panicked at") || o.exit_code == Some(101) {
        return Err(("panic".into(), format!("exit {:?}, stderr {:?}", o.exit_code, err_text)));
    }
    if o.exit_code == Some(0) || o.exit_code.is_none() {
        return Err(("unusable_input_exit_zero".into(), format!("exit {:?}, stdout {:?}", o.exit_code, String::from_utf8_lossy(&o.stdout_accepted))));
    }
    if !o.stdout_accepted.is_empty() {
        return Err(("pattern_printed_for_unusable_input".into(), format!("stdout {:?}", String::from_utf8_lossy(&o.stdout_accepted))));
    }
    if err_text.trim().is_empty() {
        return Err(("no_error_message".into(), "stderr empty".into()));
    }
    Ok(())
}

pub fn judge(case: &Case, o: &Observed) -> Verdict {
    let expect = expectation(case, o);
    let v = |class: &str, detail: String, expect: &Expect| Verdict {
        class: Some(class.to_string()),
        detail,
        expect: expect.clone(),
    };
    if o.timed_out {
        return v("hang", "process did not terminate although the fault plan is finite".into(), &expect);
    }
    if let Some(l) = &o.livelock {
        return v("hang", format!("no progress within the step bound after the faults stopped: {}", l), &expect);
    }
    let out_check = |bytes: &Vec<u8>| -> Result<(), (String, String)> {
        if let Some(s) = o.signal {
            return Err(("killed_by_signal".into(), format!("signal {}", s)));
        }
        let err_text = String::from_utf8_lossy(&o.stderr_accepted).to_string();
        if err_text.contains("panicked at") || o.exit_code == Some(101) {
            return Err(("panic".into(), format!("exit {:?}, stderr {:?}", o.exit_code, err_text)));
        }
        if o.exit_code != Some(0) {
            return Err(("usable_input_rejected".into(), format!("exit {:?}, stderr {:?}", o.exit_code, err_text)));
        }
        if &o.stdout_accepted != bytes {
            return Err((
                "stdout_differs_from_library".into(),
                format!("stdout {:?} expected {:?}", String::from_utf8_lossy(&o.stdout_accepted), String::from_utf8_lossy(bytes)),
            ));
        }
        // Text on stderr next to a faithful result and exit 0 (a warning, say) is not against the property, which
        // speaks about what is printed as the result and about the exit status; it is counted, not judged.
        Ok(())
    };
    match &expect {
        Expect::NoSilentSuccess(faithful) => {
            if o.exit_code == Some(0) && faithful.as_ref() != Some(&o.stdout_accepted) {
                v("result_lost_but_exit_zero", format!("stdout refused the bytes ({:?}) and the program exited 0", o.hard_err), &expect)
            } else {
                Verdict { class: None, detail: String::new(), expect }
            }
        }
        Expect::NotJudged(_) | Expect::LibraryPanics(_) => Verdict {
            class: None,
            detail: String::new(),
            expect,
        },
        Expect::Output(bytes) => match out_check(bytes) {
            Ok(()) => Verdict { class: None, detail: String::new(), expect },
            Err((c, d)) => v(&c, d, &expect),
        },
        Expect::Unusable(reason) => match clean_rejection_because(case, o, reason) {
            Ok(()) => {
                // grex's own errors are exactly one line
                let err_text = String::from_utf8_lossy(&o.stderr_accepted).to_string();
                if case.target == "grex" && err_text.trim_end_matches('\n').contains('\n') {
                    v("error_not_one_line", format!("stderr {:?}", err_text), &expect)
                } else {
                    Verdict { class: None, detail: String::new(), expect }
                }
            }
            Err((c, d)) => v(&c, d, &expect),
        },
        Expect::ClapError => match clean_rejection(case, o) {
            Ok(()) => {
                let err_text = String::from_utf8_lossy(&o.stderr_accepted).to_string();
                if strip_ansi(&err_text).starts_with("error:") {
                    Verdict { class: None, detail: String::new(), expect }
                } else {
                    v("usage_error_format", format!("stderr {:?}", err_text), &expect)
                }
            }
            Err((c, d)) => v(&c, d, &expect),
        },
        Expect::Either(bytes, _) => {
            if out_check(bytes).is_ok() || clean_rejection(case, o).is_ok() {
                Verdict { class: None, detail: String::new(), expect }
            } else {
                let (c, d) = out_check(bytes).err().unwrap();
                v(&c, d, &expect)
            }
        }
    }
}
