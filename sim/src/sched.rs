//! Baton scheduler: client threads are real OS threads, but only the baton holder runs.
//! Every decision (who runs next) is taken here, from the run PRNG or from an explicit list,
//! and recorded; the recorded list *is* the schedule of the replay file.

use crate::prng::Rng;
use crate::workload::SchedSpec;
use std::sync::{Condvar, Mutex};

#[derive(Clone, Copy, Debug, PartialEq, Eq)]
pub enum Status {
    Runnable,
    Blocked(usize), // waiting for mailbox
    /// holds the baton no longer because it went to sleep on a lock owned by a parked client
    /// (a lock held across a switch point in the code under test); becomes Runnable at its next switch point
    BlockedOnLock,
    Done,
}

pub struct SchedState {
    pub current: Option<usize>,
    pub status: Vec<Status>,
    pub decisions: Vec<usize>,
    pub switches: u64,
    pub switches_in_build: u64,
    pub steps: u64,
    pub deadlock: bool,
    pub deadlock_reason: &'static str,
    /// voluntary in-build switch points still allowed in this run (bounds the cost of runs on large inputs)
    pub in_build_budget: u64,
    /// bumped whenever the baton holder reaches the scheduler: the stall detector's heartbeat
    pub progress: u64,
    /// hand-overs forced because the baton holder blocked on a lock owned by a parked client
    pub lock_handovers: u64,
    /// forced hand-overs requested by the run specification (instruction-granular preemption)
    pub preemptions: u64,
    /// has the current holder actually resumed since it was given the baton? (until then its OS thread is
    /// asleep merely because the wake-up has not been delivered yet)
    holder_acked: bool,
    tids: Vec<i32>,
    mode: Mode,
    mailbox_full: Vec<bool>,
    all_done: bool,
}

enum Mode {
    Random { rng: Rng, switch_pct: u64 },
    RoundRobin,
    RunToCompletion { rng: Rng },
    Pct { prio: Vec<u64>, change_points: Vec<u64>, next_low: u64 },
    List { decisions: Vec<usize>, pos: usize },
}

pub struct Sched {
    state: Mutex<SchedState>,
    cvs: Vec<Condvar>,
    main_cv: Condvar,
    /// called (with the scheduler lock held) whenever the baton had to be taken from a holder asleep on a lock
    pub on_lock_handover: Option<fn()>,
    /// is this client currently executing code under test (as opposed to harness code, whose own mutexes it
    /// may briefly sleep on)? Only then can a sleeping holder be waiting for a lock of the code under test.
    pub in_code_under_test: Option<fn(usize) -> bool>,
}

impl Sched {
    pub fn new(n: usize, mailboxes: usize, spec: &SchedSpec, est_steps: u64) -> Sched {
        let mode = match spec {
            SchedSpec::List { decisions } => Mode::List {
                decisions: decisions.clone(),
                pos: 0,
            },
            SchedSpec::Policy { policy, switch_pct, pct_depth, seed } => {
                let mut rng = Rng::new(*seed);
                match policy.as_str() {
                    "round-robin" => Mode::RoundRobin,
                    "run-to-completion" => Mode::RunToCompletion { rng },
                    "pct" => {
                        let mut prio: Vec<u64> = (0..n as u64).map(|i| i + 1000).collect();
                        rng.shuffle(&mut prio);
                        let mut cps: Vec<u64> = (0..*pct_depth).map(|_| rng.below(est_steps.max(1))).collect();
                        cps.sort();
                        Mode::Pct {
                            prio,
                            change_points: cps,
                            next_low: 999,
                        }
                    }
                    _ => Mode::Random {
                        rng,
                        switch_pct: *switch_pct,
                    },
                }
            }
        };
        Sched {
            state: Mutex::new(SchedState {
                current: None,
                status: vec![Status::Runnable; n],
                decisions: vec![],
                switches: 0,
                switches_in_build: 0,
                steps: 0,
                deadlock: false,
                deadlock_reason: "",
                in_build_budget: 3000,
                progress: 0,
                lock_handovers: 0,
                preemptions: 0,
                holder_acked: false,
                tids: vec![0; n],
                mode,
                mailbox_full: vec![false; mailboxes],
                all_done: n == 0,
            }),
            cvs: (0..n).map(|_| Condvar::new()).collect(),
            main_cv: Condvar::new(),
            on_lock_handover: None,
            in_code_under_test: None,
        }
    }

    fn runnable(st: &SchedState) -> Vec<usize> {
        st.status
            .iter()
            .enumerate()
            .filter(|(_, s)| **s == Status::Runnable)
            .map(|(i, _)| i)
            .collect()
    }

    /// Chooses who runs next. `me` is the caller (None for the main thread's initial choice);
    /// `forced` means the caller cannot continue (blocked or done).
    fn choose(st: &mut SchedState, me: Option<usize>, forced: bool) -> Option<usize> {
        let runnable = Self::runnable(st);
        if runnable.is_empty() {
            return None;
        }
        let stay = match me {
            Some(m) if !forced && runnable.contains(&m) => Some(m),
            _ => None,
        };
        if runnable.len() == 1 {
            // no real decision to take (and nothing to record)
            return Some(runnable[0]);
        }
        let step = st.steps;
        st.steps += 1;
        let fallback = |runnable: &Vec<usize>| stay.unwrap_or(runnable[0]);
        let chosen = match &mut st.mode {
            Mode::List { decisions, pos } => {
                let c = if *pos < decisions.len() {
                    let d = decisions[*pos];
                    *pos += 1;
                    if runnable.contains(&d) {
                        d
                    } else {
                        fallback(&runnable)
                    }
                } else {
                    fallback(&runnable)
                };
                c
            }
            Mode::Random { rng, switch_pct } => match stay {
                Some(m) => {
                    let others: Vec<usize> = runnable.iter().copied().filter(|&x| x != m).collect();
                    if !others.is_empty() && rng.below(100) < *switch_pct {
                        *rng.pick(&others)
                    } else {
                        m
                    }
                }
                None => *rng.pick(&runnable),
            },
            Mode::RoundRobin => {
                let base = me.map(|m| m + 1).unwrap_or(0);
                let n = st.status.len();
                (0..n).map(|k| (base + k) % n).find(|c| runnable.contains(c)).unwrap()
            }
            Mode::RunToCompletion { rng } => match stay {
                Some(m) => m,
                None => *rng.pick(&runnable),
            },
            Mode::Pct { prio, change_points, next_low } => {
                if let Some(m) = me {
                    while !change_points.is_empty() && change_points[0] <= step {
                        change_points.remove(0);
                        prio[m] = *next_low;
                        *next_low = next_low.saturating_sub(1);
                    }
                }
                *runnable.iter().max_by_key(|&&c| prio[c]).unwrap()
            }
        };
        st.decisions.push(chosen);
        Some(chosen)
    }

    /// Is the OS thread asleep (state S in /proc)? A baton holder that computes is R; one that sleeps for a long
    /// stretch can only be waiting for a lock owned by a parked client.
    fn thread_sleeps(tid: i32) -> bool {
        if tid == 0 {
            return false;
        }
        match std::fs::read_to_string(format!("/proc/self/task/{}/stat", tid)) {
            Ok(s) => match s.rfind(')') {
                Some(i) => s[i + 1..].trim_start().starts_with('S'),
                None => false,
            },
            Err(_) => false,
        }
    }

    /// Main thread: hand the baton to the first client and wait until every client is done (or deadlock).
    /// While waiting it watches for a stalled baton holder: if the holder has not reached the scheduler for
    /// a few milliseconds AND its OS thread is asleep, it is blocked on a lock that a parked client holds (the code under
    /// test keeps a lock across a switch point). The baton is then handed to another runnable client so that
    /// the lock can be released; the sleeper re-joins at its next switch point. This never triggers on code
    /// without such locks, so determinism of ordinary runs is untouched.
    pub fn run_to_end(&self) {
        let mut st = self.state.lock().unwrap();
        if st.status.is_empty() {
            return;
        }
        let first = Self::choose(&mut st, None, true);
        st.current = first;
        st.holder_acked = false;
        if let Some(f) = first {
            self.cvs[f].notify_one();
        }
        let mut last_progress = st.progress;
        let mut stalls = 0u32;
        while !st.all_done && !st.deadlock {
            let (g, timeout) = self.main_cv.wait_timeout(st, std::time::Duration::from_millis(2)).unwrap();
            st = g;
            if !timeout.timed_out() || st.all_done || st.deadlock {
                continue;
            }
            if st.progress != last_progress {
                last_progress = st.progress;
                stalls = 0;
                continue;
            }
            stalls += 1;
            if stalls < 3 {
                continue;
            }
            if let Some(holder) = st.current {
                let in_lib = |h: usize| self.in_code_under_test.map(|f| f(h)).unwrap_or(true);
                if st.holder_acked && in_lib(holder) && Self::thread_sleeps(st.tids[holder]) {
                    // confirm over a few more samples: a sleeping holder stays asleep
                    let tid = st.tids[holder];
                    drop(st);
                    let mut asleep = true;
                    for _ in 0..4 {
                        std::thread::sleep(std::time::Duration::from_millis(1));
                        asleep &= Self::thread_sleeps(tid) && in_lib(holder);
                    }
                    st = self.state.lock().unwrap();
                    if asleep && st.current == Some(holder) && st.holder_acked && st.progress == last_progress && !st.all_done {
                        st.status[holder] = Status::BlockedOnLock;
                        match Self::choose(&mut st, Some(holder), true) {
                            Some(n) => {
                                st.lock_handovers += 1;
                                if let Some(f) = self.on_lock_handover {
                                    f();
                                }
                                st.switches += 1;
                                st.current = Some(n);
                                st.holder_acked = false;
                                self.cvs[n].notify_one();
                            }
                            None => {
                                // Nobody else can take the baton. Either an earlier sleeper owns the lock and runs
                                // without the baton (it will re-join), or the observation was wrong, or the build
                                // really never returns; in every case the holder simply stays the holder. A build
                                // that never returns ends in the worker's time limit, never in a verdict from here.
                                st.status[holder] = Status::Runnable;
                            }
                        }
                    }
                }
            }
            stalls = 0;
        }
    }

    /// A client that lost the baton while asleep on a lock re-joins: it becomes runnable and waits for its turn.
    fn rejoin<'a>(&'a self, mut st: std::sync::MutexGuard<'a, SchedState>, me: usize) -> std::sync::MutexGuard<'a, SchedState> {
        if st.status[me] == Status::BlockedOnLock {
            st.status[me] = Status::Runnable;
        }
        if st.current.is_none() && !st.all_done && !st.deadlock {
            // nobody holds the baton (everyone else finished meanwhile): take it
            st.current = Some(me);
        }
        while st.current != Some(me) && !st.deadlock {
            st = self.cvs[me].wait(st).unwrap();
        }
        st.holder_acked = true;
        st
    }

    /// Client thread: wait until the baton is mine for the first time.
    pub fn wait_first_turn(&self, me: usize) {
        let mut st = self.state.lock().unwrap();
        st.tids[me] = unsafe { libc::syscall(libc::SYS_gettid) } as i32;
        while st.current != Some(me) && !st.deadlock {
            st = self.cvs[me].wait(st).unwrap();
        }
        st.holder_acked = true;
    }

    fn hand_over<'a>(
        &'a self,
        mut st: std::sync::MutexGuard<'a, SchedState>,
        me: usize,
        next: Option<usize>,
        in_build: bool,
        wait_back: bool,
    ) {
        match next {
            Some(n) if n == me => {}
            Some(n) => {
                st.switches += 1;
                if in_build {
                    st.switches_in_build += 1;
                }
                st.current = Some(n);
                st.holder_acked = false;
                self.cvs[n].notify_one();
                if wait_back {
                    while st.current != Some(me) && !st.deadlock {
                        st = self.cvs[me].wait(st).unwrap();
                    }
                    st.holder_acked = true;
                }
            }
            None => {
                // nobody can run
                st.current = None;
                if st.status.iter().all(|s| *s == Status::Done) {
                    st.all_done = true;
                } else if st.status.iter().any(|s| *s == Status::BlockedOnLock) {
                    // a sleeper is still to re-join (the lock it waits for may just have been released):
                    // it takes the baton itself when it reaches its next switch point; a caller that cannot
                    // continue by itself (blocked on a mailbox) waits until the baton comes back to it
                    if wait_back {
                        while st.current != Some(me) && !st.deadlock {
                            st = self.cvs[me].wait(st).unwrap();
                        }
                        st.holder_acked = true;
                    }
                    return;
                } else {
                    st.deadlock = true;
                    st.deadlock_reason = "hand-over: nobody runnable";
                    for cv in &self.cvs {
                        cv.notify_one();
                    }
                }
                self.main_cv.notify_one();
            }
        }
    }

    /// A voluntary switch point (API call boundary or enabled in-build site).
    pub fn yield_point(&self, me: usize, in_build: bool) {
        let mut st = self.state.lock().unwrap();
        if st.deadlock {
            return;
        }
        st.progress += 1;
        if st.current != Some(me) {
            st = self.rejoin(st, me);
            if st.deadlock {
                return;
            }
        }
        if in_build {
            if st.in_build_budget == 0 {
                return;
            }
            st.in_build_budget -= 1;
        }
        let next = Self::choose(&mut st, Some(me), false);
        self.hand_over(st, me, next, in_build, true);
    }

    /// A forced switch point between two instructions of the code under test (see step.rs), or at a hook visit named
    /// by the run specification: the baton goes to `to` if that client can run, and comes back like after any
    /// other switch. Not a decision of the policy: the run specification names the taker, nothing is recorded in
    /// the decision list.
    pub fn preempt_to(&self, me: usize, to: usize) {
        let mut st = self.state.lock().unwrap();
        if st.deadlock {
            return;
        }
        st.progress += 1;
        if st.current != Some(me) {
            st = self.rejoin(st, me);
            if st.deadlock {
                return;
            }
        }
        if to != me && st.status.get(to) == Some(&Status::Runnable) {
            st.preemptions += 1;
            self.hand_over(st, me, Some(to), true, true);
        }
    }

    pub fn preemptions(&self) -> u64 {
        self.state.lock().unwrap().preemptions
    }

    /// Blocks until the mailbox is full. Returns false on deadlock.
    pub fn wait_mailbox(&self, me: usize, mailbox: usize) -> bool {
        let mut st = self.state.lock().unwrap();
        st.progress += 1;
        if st.current != Some(me) {
            st = self.rejoin(st, me);
        }
        if st.mailbox_full[mailbox] {
            return true;
        }
        st.status[me] = Status::Blocked(mailbox);
        let next = Self::choose(&mut st, Some(me), true);
        self.hand_over(st, me, next, false, true);
        let st = self.state.lock().unwrap();
        !st.deadlock
    }

    pub fn mailbox_filled(&self, mailbox: usize) {
        let mut st = self.state.lock().unwrap();
        st.mailbox_full[mailbox] = true;
        for s in st.status.iter_mut() {
            if *s == Status::Blocked(mailbox) {
                *s = Status::Runnable;
            }
        }
    }

    pub fn finish(&self, me: usize) {
        let mut st = self.state.lock().unwrap();
        st.progress += 1;
        let had_baton = st.current == Some(me);
        st.status[me] = Status::Done;
        if st.deadlock {
            return;
        }
        if !had_baton {
            // finished while someone else holds the baton (after a lock hand-over): nothing to hand over
            if st.status.iter().all(|s| *s == Status::Done) {
                st.all_done = true;
                self.main_cv.notify_one();
            }
            return;
        }
        let next = Self::choose(&mut st, Some(me), true);
        self.hand_over(st, me, next, false, false);
    }

    pub fn is_deadlocked(&self) -> bool {
        self.state.lock().unwrap().deadlock
    }

    pub fn summary(&self) -> (Vec<usize>, u64, u64, u64, bool) {
        let st = self.state.lock().unwrap();
        (st.decisions.clone(), st.switches, st.switches_in_build, st.steps, st.deadlock)
    }

    pub fn lock_handovers(&self) -> u64 {
        self.state.lock().unwrap().lock_handovers
    }

    /// Diagnostic snapshot for harness-error messages.
    pub fn describe(&self) -> String {
        let st = self.state.lock().unwrap();
        format!(
            "current={:?} acked={} status={:?} mailboxes_full={:?} lock_handovers={} steps={} progress={} why={}",
            st.current, st.holder_acked, st.status, st.mailbox_full, st.lock_handovers, st.steps, st.progress, st.deadlock_reason
        )
    }
}
