//! Instruction-granular preemption.
//!
//! The baton scheduler can only take the baton away at the points where the code under test calls the hook, so a
//! window that contains no hook (two adjacent stores, a load and the store that depends on it) can never be split by
//! it. This module closes that gap with the x86-64 trap flag: at a chosen hook visit the client sets TF in its own
//! flags register, the processor then raises SIGTRAP after every instruction, the handler counts the instructions that
//! lie inside this executable's text (library code under test, std and the harness are linked statically into it;
//! the C library is not and is never counted nor stopped in, so neither its alignment-dependent loops nor its locks
//! matter) and after exactly `budget` of them clears TF and performs a forced baton hand-over *inside the handler*:
//! the client is parked between two instructions of the code under test. Which hook visit, how many instructions
//! and who runs meanwhile are part of the run specification, so a run is one repeatable execution like any other.
//!
//! Everything here is per thread (TF lives in the thread's flags, the counters are const-initialised thread locals
//! without destructors and therefore plain TLS slots, safe to touch in a signal handler).

use std::cell::Cell;
use std::sync::atomic::{AtomicBool, AtomicU64, AtomicUsize, Ordering};

thread_local! {
    static ARMED: Cell<bool> = const { Cell::new(false) };
    static BUDGET: Cell<u32> = const { Cell::new(0) };
    static COUNT: Cell<u32> = const { Cell::new(0) };
    static TRAPS: Cell<u32> = const { Cell::new(0) };
    static TRAP_LIMIT: Cell<u32> = const { Cell::new(0) };
}

static TEXT_LO: AtomicUsize = AtomicUsize::new(0);
static TEXT_HI: AtomicUsize = AtomicUsize::new(0);
static INSTALLED: AtomicBool = AtomicBool::new(false);
/// the function that parks the client (set by exec.rs); called from the handler
static ON_FIRE: AtomicUsize = AtomicUsize::new(0);

/// single-step traps taken (all) / counted (inside this executable's text)
pub static TRAPS_TOTAL: AtomicU64 = AtomicU64::new(0);
pub static STEPS_COUNTED: AtomicU64 = AtomicU64::new(0);
/// preemptions performed between two instructions, after exactly the requested count
pub static FIRED_BY_COUNT: AtomicU64 = AtomicU64::new(0);
/// stepping given up because too many instructions outside the text were met (a long excursion into the C library)
pub static EXPIRED: AtomicU64 = AtomicU64::new(0);

/// Upper bound on traps per arming (counted or not), on top of four times the requested count: bounds the cost of
/// an excursion into the C library or the unwinder.
const TRAP_CAP: u32 = 6000;

/// The executable mapping(s) of this program's own file: [lowest start, highest end) of the lines of
/// /proc/self/maps that carry the x permission and the path of the running executable.
fn own_text_range() -> (usize, usize) {
    let exe = std::fs::read_link("/proc/self/exe").map(|p| p.to_string_lossy().to_string()).unwrap_or_default();
    let maps = std::fs::read_to_string("/proc/self/maps").unwrap_or_default();
    let (mut lo, mut hi) = (usize::MAX, 0usize);
    for line in maps.lines() {
        let mut it = line.split_whitespace();
        let (range, perms) = (it.next().unwrap_or(""), it.next().unwrap_or(""));
        let path = it.nth(3).unwrap_or("");
        if !perms.contains('x') || path != exe {
            continue;
        }
        if let Some((a, b)) = range.split_once('-') {
            if let (Ok(a), Ok(b)) = (usize::from_str_radix(a, 16), usize::from_str_radix(b, 16)) {
                lo = lo.min(a);
                hi = hi.max(b);
            }
        }
    }
    if lo >= hi {
        (0, 0)
    } else {
        (lo, hi)
    }
}

#[inline(always)]
fn in_text(addr: usize) -> bool {
    addr >= TEXT_LO.load(Ordering::Relaxed) && addr < TEXT_HI.load(Ordering::Relaxed)
}

/// An arrival at an instruction of this executable while stepping: count it, record it (trace mode), or park the
/// client when the requested count is reached.
#[cfg(target_arch = "x86_64")]
unsafe fn arrival(rip: usize, gregs: &mut [i64; 23], traps: u32) {
    const TF: i64 = 0x100;
    let c = COUNT.with(|c| {
        c.set(c.get() + 1);
        c.get()
    });
    let tp = TRACE_PTR.with(|p| p.get());
    if !tp.is_null() {
        // trace mode: record, never preempt
        if c <= TRACE_CAP.with(|x| x.get()) {
            *tp.add(c as usize - 1) = (rip - TEXT_LO.load(Ordering::Relaxed)) as u32;
        } else {
            gregs[libc::REG_EFL as usize] &= !TF;
            ARMED.with(|a| a.set(false));
        }
        return;
    }
    if c >= BUDGET.with(|b| b.get()) {
        gregs[libc::REG_EFL as usize] &= !TF;
        ARMED.with(|a| a.set(false));
        TRAPS_TOTAL.fetch_add(traps as u64, Ordering::Relaxed);
        STEPS_COUNTED.fetch_add(c as u64, Ordering::Relaxed);
        FIRED_BY_COUNT.fetch_add(1, Ordering::Relaxed);
        let f = ON_FIRE.load(Ordering::Relaxed);
        if f != 0 {
            let errno = *libc::__errno_location();
            let f: fn() = std::mem::transmute(f);
            f();
            *libc::__errno_location() = errno;
        }
    }
}

#[cfg(target_arch = "x86_64")]
extern "C" fn on_trap(_sig: libc::c_int, info: *mut libc::siginfo_t, ctx: *mut libc::c_void) {
    unsafe {
        let uc = ctx as *mut libc::ucontext_t;
        let gregs = &mut (*uc).uc_mcontext.gregs;
        const TF: i64 = 0x100;
        if !info.is_null() && (*info).si_code == 6 {
            // TRAP_PERF: a hardware breakpoint of this thread
            let so = STEPOVER_FD.with(|f| f.replace(-1));
            if so >= 0 {
                // back from code outside the executable: go on stepping, this instruction included
                libc::ioctl(so, 0x2401, 0);
                libc::close(so);
                if ARMED.with(|a| a.get()) {
                    gregs[libc::REG_EFL as usize] |= TF;
                    let traps = TRAPS.with(|t| {
                        t.set(t.get() + 1);
                        t.get()
                    });
                    arrival(gregs[libc::REG_RIP as usize] as usize, gregs, traps);
                }
                return;
            }
            on_break_hit();
            return;
        }
        if !ARMED.with(|a| a.get()) {
            gregs[libc::REG_EFL as usize] &= !TF;
            return;
        }
        let rip = gregs[libc::REG_RIP as usize] as usize;
        let traps = TRAPS.with(|t| {
            t.set(t.get() + 1);
            t.get()
        });
        if in_text(rip) {
            arrival(rip, gregs, traps);
            if !ARMED.with(|a| a.get()) {
                return;
            }
        } else {
            // Entering code outside this executable (the C library, the dynamic loader): let it run at full speed
            // and go on stepping at the return address. Besides saving the traps, this keeps the trap flag out of
            // `clone`: a thread created while its parent single-steps would inherit the flag with all signals
            // blocked (the C library blocks them around thread creation), and the kernel would kill the process.
            let rsp = gregs[libc::REG_RSP as usize] as usize;
            let ret = *(rsp as *const usize);
            if in_text(ret) {
                let fd = open_breakpoint(ret as u64, 1);
                if fd >= 0 {
                    STEPOVER_FD.with(|f| f.set(fd));
                    STEPOVERS.fetch_add(1, Ordering::Relaxed);
                    gregs[libc::REG_EFL as usize] &= !TF;
                    return;
                }
            }
        }
        if traps >= TRAP_LIMIT.with(|t| t.get()) {
            gregs[libc::REG_EFL as usize] &= !TF;
            ARMED.with(|a| a.set(false));
            TRAPS_TOTAL.fetch_add(traps as u64, Ordering::Relaxed);
            STEPS_COUNTED.fetch_add(COUNT.with(|c| c.get()) as u64, Ordering::Relaxed);
            EXPIRED.fetch_add(1, Ordering::Relaxed);
        }
    }
}

/// Installs the SIGTRAP handler (once per process) and registers the parking function.
pub fn install(on_fire: fn()) {
    ON_FIRE.store(on_fire as usize, Ordering::SeqCst);
    if INSTALLED.swap(true, Ordering::SeqCst) {
        return;
    }
    unsafe {
        let (lo, hi) = own_text_range();
        TEXT_LO.store(lo, Ordering::SeqCst);
        TEXT_HI.store(hi, Ordering::SeqCst);
        #[cfg(target_arch = "x86_64")]
        {
            let mut sa: libc::sigaction = std::mem::zeroed();
            sa.sa_sigaction = on_trap as usize;
            sa.sa_flags = libc::SA_SIGINFO | libc::SA_RESTART;
            libc::sigemptyset(&mut sa.sa_mask);
            libc::sigaction(libc::SIGTRAP, &sa, std::ptr::null_mut());
        }
    }
}

pub fn available() -> bool {
    cfg!(target_arch = "x86_64") && TEXT_HI.load(Ordering::Relaxed) > 0
}

pub fn armed() -> bool {
    ARMED.with(|a| a.get())
}

/// Starts single-stepping on the calling thread; the handler fires after `budget` counted instructions.
/// Must be the last thing the caller does before returning into the code under test.
#[inline(always)]
pub fn arm(budget: u32) {
    BUDGET.with(|b| b.set(budget.max(1)));
    TRAP_LIMIT.with(|t| t.set(budget.saturating_mul(4).saturating_add(TRAP_CAP)));
    COUNT.with(|c| c.set(0));
    TRAPS.with(|t| t.set(0));
    ARMED.with(|a| a.set(true));
    #[cfg(target_arch = "x86_64")]
    unsafe {
        core::arch::asm!("pushfq", "or qword ptr [rsp], 0x100", "popfq");
    }
}

/// Stops single-stepping on the calling thread (no-op when not armed). Returns true iff stepping was still active,
/// i.e. the requested count had not been reached.
#[inline(always)]
pub fn disarm() -> bool {
    let was = ARMED.with(|a| a.replace(false));
    let so = STEPOVER_FD.with(|f| f.replace(-1));
    if so >= 0 {
        unsafe { libc::close(so) };
    }
    if was {
        #[cfg(target_arch = "x86_64")]
        unsafe {
            core::arch::asm!("pushfq", "and qword ptr [rsp], -257", "popfq");
        }
        TRAPS_TOTAL.fetch_add(TRAPS.with(|t| t.get()) as u64, Ordering::Relaxed);
        STEPS_COUNTED.fetch_add(COUNT.with(|c| c.get()) as u64, Ordering::Relaxed);
    }
    was
}

// ---------------------------------------------------------------------------------------
// Trace mode and breakpoint mode.
//
// Reaching the k-th instruction after a visit by single-stepping costs k traps, so sweeping every k of a stretch of d
// instructions costs d²/2: affordable for a few dozen instructions, not for the thousands that lie between two hooks.
// The sweep therefore single-steps each stretch ONCE, recording the address (as an offset into this executable's
// text, which is the same in every process) of every instruction arrived at; for each position k it then starts a
// fresh run in which a hardware execution breakpoint (a debug register, programmed for the calling thread through
// perf_event_open with sigtrap=1) is set on the k-th address with a sample period equal to the number of times that
// address occurs among the first k: the processor stops the thread just before it executes that instruction for that
// time, at the cost of ONE trap. The handler then parks the client exactly as in single-step mode.
// ---------------------------------------------------------------------------------------

thread_local! {
    static TRACE_PTR: Cell<*mut u32> = const { Cell::new(std::ptr::null_mut()) };
    static TRACE_CAP: Cell<u32> = const { Cell::new(0) };
    static BREAK_FD: Cell<i32> = const { Cell::new(-1) };
    /// breakpoint on the return address while code outside the executable runs at full speed
    static STEPOVER_FD: Cell<i32> = const { Cell::new(-1) };
}

/// excursions outside the executable that were run at full speed instead of being single-stepped
pub static STEPOVERS: AtomicU64 = AtomicU64::new(0);

pub static TRACES_RECORDED: AtomicU64 = AtomicU64::new(0);
pub static BREAKPOINTS_SET: AtomicU64 = AtomicU64::new(0);
pub static BREAKPOINTS_HIT: AtomicU64 = AtomicU64::new(0);
pub static BREAKPOINTS_REFUSED: AtomicU64 = AtomicU64::new(0);

/// Starts single-stepping in trace mode: up to `buf.capacity()` arrivals at instructions of this executable are
/// recorded into `buf` (as text offsets) and nothing is preempted. `buf` must stay alive and untouched until
/// `end_trace`. Must be the last thing the caller does before it returns into the code under test.
#[inline(always)]
pub fn arm_trace(buf: &mut Vec<u32>) {
    buf.clear();
    TRACE_PTR.with(|p| p.set(buf.as_mut_ptr()));
    TRACE_CAP.with(|c| c.set(buf.capacity() as u32));
    arm(buf.capacity() as u32 + 1);
}

/// Ends trace mode (after `disarm`): sets the length of `buf` to the number of arrivals recorded.
pub fn end_trace(buf: &mut Vec<u32>) {
    let n = COUNT.with(|c| c.get()).min(TRACE_CAP.with(|c| c.get()));
    TRACE_PTR.with(|p| p.set(std::ptr::null_mut()));
    TRACE_CAP.with(|c| c.set(0));
    unsafe { buf.set_len(n as usize) };
    TRACES_RECORDED.fetch_add(1, Ordering::Relaxed);
}

pub fn tracing() -> bool {
    !TRACE_PTR.with(|p| p.get()).is_null()
}

/// Programs a hardware execution breakpoint for the calling thread at text offset `offset`, to fire on its
/// `occurrence`-th execution from now. Returns false if the kernel refuses (no debug register free, no permission).
fn open_breakpoint(addr: u64, occurrence: u32) -> i32 {
    let mut attr = [0u8; 128];
    attr[0..4].copy_from_slice(&5u32.to_le_bytes()); // PERF_TYPE_BREAKPOINT
    attr[4..8].copy_from_slice(&128u32.to_le_bytes()); // size
    attr[16..24].copy_from_slice(&(occurrence.max(1) as u64).to_le_bytes()); // sample_period
    let flags: u64 = 0x20 | 0x40 | 0x10_0000_0000 | 0x20_0000_0000; // exclude_kernel, exclude_hv, remove_on_exec, sigtrap
    attr[40..48].copy_from_slice(&flags.to_le_bytes());
    attr[52..56].copy_from_slice(&4u32.to_le_bytes()); // HW_BREAKPOINT_X
    attr[56..64].copy_from_slice(&addr.to_le_bytes());
    attr[64..72].copy_from_slice(&8u64.to_le_bytes()); // sizeof(long)
    unsafe { libc::syscall(libc::SYS_perf_event_open, attr.as_ptr(), 0, -1, -1, 8u64 /* PERF_FLAG_FD_CLOEXEC */) as i32 }
}

pub fn arm_break(offset: u32, occurrence: u32) -> bool {
    let addr = TEXT_LO.load(Ordering::Relaxed) as u64 + offset as u64;
    let fd = open_breakpoint(addr, occurrence);
    if fd < 0 {
        BREAKPOINTS_REFUSED.fetch_add(1, Ordering::Relaxed);
        return false;
    }
    BREAK_FD.with(|f| f.set(fd));
    BREAKPOINTS_SET.fetch_add(1, Ordering::Relaxed);
    true
}

/// Removes the calling thread's breakpoint, if any. Returns true iff one was still set (it had not fired).
pub fn disarm_break() -> bool {
    let fd = BREAK_FD.with(|f| f.replace(-1));
    if fd >= 0 {
        unsafe { libc::close(fd) };
        true
    } else {
        false
    }
}

/// Called by the SIGTRAP handler for a perf breakpoint hit on this thread.
fn on_break_hit() {
    let fd = BREAK_FD.with(|f| f.replace(-1));
    if fd < 0 {
        return;
    }
    unsafe {
        libc::ioctl(fd, 0x2401, 0); // PERF_EVENT_IOC_DISABLE
        libc::close(fd);
    }
    BREAKPOINTS_HIT.fetch_add(1, Ordering::Relaxed);
    FIRED_BY_COUNT.fetch_add(1, Ordering::Relaxed);
    let f = ON_FIRE.load(Ordering::Relaxed);
    if f != 0 {
        unsafe {
            let errno = *libc::__errno_location();
            let f: fn() = std::mem::transmute(f);
            f();
            *libc::__errno_location() = errno;
        }
    }
}
