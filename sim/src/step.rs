//! Instruction-granular preemption.
//!
//! The baton scheduler can only take the baton away at the points where the code under test calls the hook, so a
//! window that contains no hook (two adjacent stores, a load and the store that depends on it) can never be split by
//! it. This module closes that gap with the x86-64 trap flag: at a chosen hook visit the client sets TF in its own
//! flags register, the processor then raises SIGTRAP after every instruction, the handler counts the instructions that
//! lie inside this executable's text (library code under test, std and the harness are linked statically into it;
//! the C library is not and is never counted nor stopped in, so neither its alignment-dependent loops nor its locks
//! matter) and after exactly `budget` of them clears TF and performs a forced baton hand-over *inside the handler*:
//! the client is parked between two instructions of the code under test. Which hook visit, how many instructions
//! and who runs meanwhile are part of the run specification, so a run is one repeatable execution like any other.
//!
//! Everything here is per thread (TF lives in the thread's flags, the counters are const-initialised thread locals
//! without destructors and therefore plain TLS slots, safe to touch in a signal handler).

use std::cell::Cell;
use std::sync::atomic::{AtomicBool, AtomicU64, AtomicUsize, Ordering};

thread_local! {
    static ARMED: Cell<bool> = const { Cell::new(false) };
    static BUDGET: Cell<u32> = const { Cell::new(0) };
    static COUNT: Cell<u32> = const { Cell::new(0) };
    static TRAPS: Cell<u32> = const { Cell::new(0) };
    static TRAP_LIMIT: Cell<u32> = const { Cell::new(0) };
}

static TEXT_LO: AtomicUsize = AtomicUsize::new(0);
static TEXT_HI: AtomicUsize = AtomicUsize::new(0);
static INSTALLED: AtomicBool = AtomicBool::new(false);
/// the function that parks the client (set by exec.rs); called from the handler
static ON_FIRE: AtomicUsize = AtomicUsize::new(0);

/// single-step traps taken (all) / counted (inside this executable's text)
pub static TRAPS_TOTAL: AtomicU64 = AtomicU64::new(0);
pub static STEPS_COUNTED: AtomicU64 = AtomicU64::new(0);
/// preemptions performed between two instructions, after exactly the requested count
pub static FIRED_BY_COUNT: AtomicU64 = AtomicU64::new(0);
/// stepping given up because too many instructions outside the text were met (a long excursion into the C library)
pub static EXPIRED: AtomicU64 = AtomicU64::new(0);

/// Upper bound on traps per arming (counted or not), on top of four times the requested count: bounds the cost of
/// an excursion into the C library or the unwinder.
const TRAP_CAP: u32 = 6000;

/// The executable mapping(s) of this program's own file: [lowest start, highest end) of the lines of
/// /proc/self/maps that carry the x permission and the path of the running executable.
fn own_text_range() -> (usize, usize) {
    let exe = std::fs::read_link("/proc/self/exe").map(|p| p.to_string_lossy().to_string()).unwrap_or_default();
    let maps = std::fs::read_to_string("/proc/self/maps").unwrap_or_default();
    let (mut lo, mut hi) = (usize::MAX, 0usize);
    for line in maps.lines() {
        let mut it = line.split_whitespace();
        let (range, perms) = (it.next().unwrap_or(""), it.next().unwrap_or(""));
        let path = it.nth(3).unwrap_or("");
        if !perms.contains('x') || path != exe {
            continue;
        }
        if let Some((a, b)) = range.split_once('-') {
            if let (Ok(a), Ok(b)) = (usize::from_str_radix(a, 16), usize::from_str_radix(b, 16)) {
                lo = lo.min(a);
                hi = hi.max(b);
            }
        }
    }
    if lo >= hi {
        (0, 0)
    } else {
        (lo, hi)
    }
}

#[cfg(target_arch = "x86_64")]
extern "C" fn on_trap(_sig: libc::c_int, _info: *mut libc::siginfo_t, ctx: *mut libc::c_void) {
    unsafe {
        let uc = ctx as *mut libc::ucontext_t;
        let gregs = &mut (*uc).uc_mcontext.gregs;
        const TF: i64 = 0x100;
        if !ARMED.with(|a| a.get()) {
            gregs[libc::REG_EFL as usize] &= !TF;
            return;
        }
        let rip = gregs[libc::REG_RIP as usize] as usize;
        let traps = TRAPS.with(|t| {
            t.set(t.get() + 1);
            t.get()
        });
        let in_text = rip >= TEXT_LO.load(Ordering::Relaxed) && rip < TEXT_HI.load(Ordering::Relaxed);
        if in_text {
            let c = COUNT.with(|c| {
                c.set(c.get() + 1);
                c.get()
            });
            if c >= BUDGET.with(|b| b.get()) {
                gregs[libc::REG_EFL as usize] &= !TF;
                ARMED.with(|a| a.set(false));
                TRAPS_TOTAL.fetch_add(traps as u64, Ordering::Relaxed);
                STEPS_COUNTED.fetch_add(c as u64, Ordering::Relaxed);
                FIRED_BY_COUNT.fetch_add(1, Ordering::Relaxed);
                let f = ON_FIRE.load(Ordering::Relaxed);
                if f != 0 {
                    let errno = *libc::__errno_location();
                    let f: fn() = std::mem::transmute(f);
                    f();
                    *libc::__errno_location() = errno;
                }
                return;
            }
        }
        if traps >= TRAP_LIMIT.with(|t| t.get()) {
            gregs[libc::REG_EFL as usize] &= !TF;
            ARMED.with(|a| a.set(false));
            TRAPS_TOTAL.fetch_add(traps as u64, Ordering::Relaxed);
            STEPS_COUNTED.fetch_add(COUNT.with(|c| c.get()) as u64, Ordering::Relaxed);
            EXPIRED.fetch_add(1, Ordering::Relaxed);
        }
    }
}

/// Installs the SIGTRAP handler (once per process) and registers the parking function.
pub fn install(on_fire: fn()) {
    ON_FIRE.store(on_fire as usize, Ordering::SeqCst);
    if INSTALLED.swap(true, Ordering::SeqCst) {
        return;
    }
    unsafe {
        let (lo, hi) = own_text_range();
        TEXT_LO.store(lo, Ordering::SeqCst);
        TEXT_HI.store(hi, Ordering::SeqCst);
        #[cfg(target_arch = "x86_64")]
        {
            let mut sa: libc::sigaction = std::mem::zeroed();
            sa.sa_sigaction = on_trap as usize;
            sa.sa_flags = libc::SA_SIGINFO | libc::SA_RESTART;
            libc::sigemptyset(&mut sa.sa_mask);
            libc::sigaction(libc::SIGTRAP, &sa, std::ptr::null_mut());
        }
    }
}

pub fn available() -> bool {
    cfg!(target_arch = "x86_64") && TEXT_HI.load(Ordering::Relaxed) > 0
}

pub fn armed() -> bool {
    ARMED.with(|a| a.get())
}

/// Starts single-stepping on the calling thread; the handler fires after `budget` counted instructions.
/// Must be the last thing the caller does before returning into the code under test.
#[inline(always)]
pub fn arm(budget: u32) {
    BUDGET.with(|b| b.set(budget.max(1)));
    TRAP_LIMIT.with(|t| t.set(budget.saturating_mul(4).saturating_add(TRAP_CAP)));
    COUNT.with(|c| c.set(0));
    TRAPS.with(|t| t.set(0));
    ARMED.with(|a| a.set(true));
    #[cfg(target_arch = "x86_64")]
    unsafe {
        core::arch::asm!("pushfq", "or qword ptr [rsp], 0x100", "popfq");
    }
}

/// Stops single-stepping on the calling thread (no-op when not armed). Returns true iff stepping was still active,
/// i.e. the requested count had not been reached.
#[inline(always)]
pub fn disarm() -> bool {
    let was = ARMED.with(|a| a.replace(false));
    if was {
        #[cfg(target_arch = "x86_64")]
        unsafe {
            core::arch::asm!("pushfq", "and qword ptr [rsp], -257", "popfq");
        }
        TRAPS_TOTAL.fetch_add(TRAPS.with(|t| t.get()) as u64, Ordering::Relaxed);
        STEPS_COUNTED.fetch_add(COUNT.with(|c| c.get()) as u64, Ordering::Relaxed);
    }
    was
}
