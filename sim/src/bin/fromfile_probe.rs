//! fromfile_probe <path> [<cfg-encoding>] — calls the library's `RegExpBuilder::from_file(path)`,
//! applies the settings and builds, under catch_unwind. Prints `OK <json string>` or `PANIC <json string>`.
//! Run under the simenv shim so that the file system behind `from_file` is the simulator's.

use grex::RegExpBuilder;
use grex_sim::model::{guarded, Cfg};

fn main() {
    // the path need not be valid UTF-8
    let args: Vec<std::ffi::OsString> = std::env::args_os().collect();
    let path = std::path::PathBuf::from(args.get(1).cloned().unwrap_or_default());
    let cfg = args.get(2).and_then(|s| s.to_str()).and_then(Cfg::decode).unwrap_or_default();
    grex_sim::model::install_quiet_panic_hook();
    let r = guarded(move || {
        let mut b = RegExpBuilder::from_file(path);
        for s in cfg.canonical_setters() {
            s.apply_real(&mut b);
        }
        b.build()
    });
    match r {
        Ok(s) => println!("OK {}", serde_json::Value::String(s)),
        Err(m) => println!("PANIC {}", serde_json::Value::String(m)),
    }
}
