//! simenv — driver for the simulated operating system under the real `grex` binary
//! (property C12, and the separate-process facet of C10). See /verif/DESIGN.md §2.2, §5.
//!
//! Modes:
//!   run     --facet c12|c10 --tier quick|thorough --seed N --grex P --probe P --shim P --evidence P --replay-dir D
//!   replay  <file> --grex P --probe P --shim P

use grex_sim::model::{Cfg, Outcome};
use grex_sim::prng::*;
use grex_sim::simenv_case::*;
use grex_sim::simenv_gen::*;
use grex_sim::workload::gen_set;
use serde_json::{json, Value};
use std::collections::{BTreeMap, BTreeSet};
use std::sync::atomic::{AtomicUsize, Ordering};
use std::sync::{Arc, Mutex};
use std::time::Instant;

const DEFAULT_SEED: u64 = 20261003;

fn arg_value(args: &[String], name: &str) -> Option<String> {
    args.iter().position(|a| a == name).and_then(|i| args.get(i + 1).cloned())
}

fn bins_from(args: &[String]) -> Binaries {
    Binaries {
        grex: arg_value(args, "--grex").unwrap_or_else(|| "/verif/target/repo-cli/release/grex".into()),
        probe: arg_value(args, "--probe").unwrap_or_else(|| "/verif/target/sim/release/fromfile_probe".into()),
        shim: arg_value(args, "--shim").unwrap_or_else(|| "/verif/build/libsimenv.so".into()),
        scratch: format!(
            "{}/simenv-{}",
            arg_value(args, "--scratch-dir").unwrap_or_else(|| "/verif/target/tmp".into()),
            std::process::id()
        ),
    }
}

// ---------------------------------------------------------------------------------------
// Case lists
// ---------------------------------------------------------------------------------------

const CHANNELS: &[&str] = &["args", "stdin", "file", "file-via-stdin"];

struct Planned {
    case: Case,
    stratum: &'static str,
}

/// Stream content for a channel, or None if the list cannot travel on it unchanged.
fn content_for(channel: &str, lines: &[String], crlf: u64, final_nl: bool, rng: &mut Rng) -> Option<Vec<u8>> {
    if channel == "args" {
        if argument_safe(lines) {
            Some(vec![])
        } else {
            None
        }
    } else if stream_safe(lines, final_nl) {
        // with CRLF framing a line ending in CR would gain a second CR: still a legal stream, the model decides
        Some(frame(lines, crlf, final_nl, rng))
    } else {
        None
    }
}

/// Names like GREX_SOMETHING that occur in the binary's own bytes (a program-specific environment variable).
fn discovered_env_names(binary: &str) -> Vec<String> {
    let bytes = std::fs::read(binary).unwrap_or_default();
    let pat = b"GREX_";
    let mut out: Vec<String> = vec![];
    let mut i = 0;
    while i + pat.len() < bytes.len() {
        // string literals lie back to back in the binary: no word boundary can be required on either side
        if &bytes[i..i + pat.len()] == pat {
            let mut j = i + pat.len();
            while j < bytes.len() && (bytes[j].is_ascii_uppercase() || bytes[j].is_ascii_digit() || bytes[j] == b'_') {
                j += 1;
            }
            if j > i + pat.len() && j - i <= 48 {
                let name = String::from_utf8_lossy(&bytes[i..j]).to_string();
                // the next literal may start with a capital letter that got glued on: also try without it
                if name.len() > 8 {
                    let shorter = name[..name.len() - 1].trim_end_matches('_').to_string();
                    if !out.contains(&shorter) {
                        out.push(shorter);
                    }
                }
                if !out.contains(&name) {
                    out.push(name);
                }
            }
            i = j;
        } else {
            i += 1;
        }
    }
    out.sort();
    out.truncate(12);
    out
}

fn flag_sweep_cfgs(triples: bool) -> Vec<Cfg> {
    let base = Cfg::default();
    let singles: Vec<Box<dyn Fn(&mut Cfg)>> = vec![
        Box::new(|c| c.digits = true),
        Box::new(|c| c.non_digits = true),
        Box::new(|c| c.spaces = true),
        Box::new(|c| c.non_spaces = true),
        Box::new(|c| c.words = true),
        Box::new(|c| c.non_words = true),
        Box::new(|c| c.repetitions = true),
        Box::new(|c| c.ignore_case = true),
        Box::new(|c| c.capture = true),
        Box::new(|c| c.escape = true),
        Box::new(|c| {
            c.escape = true;
            c.surrogates = true
        }),
        Box::new(|c| c.verbose = true),
        Box::new(|c| c.no_start = true),
        Box::new(|c| c.no_end = true),
        Box::new(|c| {
            c.no_start = true;
            c.no_end = true
        }),
        Box::new(|c| c.colorize = true),
    ];
    let mut out = vec![base.clone()];
    for f in &singles {
        let mut c = base.clone();
        f(&mut c);
        out.push(c);
    }
    for i in 0..singles.len() {
        for j in i + 1..singles.len() {
            let mut c = base.clone();
            singles[i](&mut c);
            singles[j](&mut c);
            out.push(c);
        }
    }
    if triples {
        for i in 0..singles.len() {
            for j in i + 1..singles.len() {
                for k in j + 1..singles.len() {
                    let mut c = base.clone();
                    singles[i](&mut c);
                    singles[j](&mut c);
                    singles[k](&mut c);
                    out.push(c);
                }
            }
        }
    }
    // thresholds (only observable with repetition conversion)
    for rep in 1..=4u32 {
        for len in 1..=4u32 {
            let mut c = base.clone();
            c.repetitions = true;
            c.min_rep = rep;
            c.min_len = len;
            out.push(c);
        }
    }
    out
}

/// Stratum 1: low-order sweep (deterministic given the seed, guarantees reach).
fn sweep_cases(seed: u64, tier: &str, bins: &Binaries, scratch: Option<&str>) -> Vec<Planned> {
    let mut out = vec![];
    let mut rng = Rng::new(derive(seed, &[0x5357]));
    let corpus = corpus();
    let thorough = tier == "thorough";
    // (a) every corpus input x channel x framing, fault-free, default flags and one busy configuration
    let busy = {
        let mut c = Cfg::default();
        c.digits = true;
        c.repetitions = true;
        c.ignore_case = true;
        c.verbose = true;
        c.no_end = true;
        c
    };
    // no anchors and nothing else: the printed pattern is the bare expression (empty for the empty test case)
    let bare = {
        let mut c = Cfg::default();
        c.no_start = true;
        c.no_end = true;
        c
    };
    for (name, lines) in &corpus {
        for ch in CHANNELS {
            for crlf in 0..3u64 {
                for final_nl in [true, false] {
                    if *ch == "args" && (crlf > 0 || !final_nl) {
                        continue;
                    }
                    if name == "huge-valid" && (crlf != 0 || !final_nl) {
                        continue;
                    }
                    for cfg in [&Cfg::default(), &busy, &bare] {
                        if name == "huge-valid" && cfg != &busy {
                            continue;
                        }
                        // very long lines are expensive for the library (super-linear): default settings only
                        if lines.iter().any(|l| l.len() > 400) && (cfg != &Cfg::default() || crlf == 2) {
                            continue;
                        }
                        if let Some(content) = content_for(ch, lines, crlf, final_nl, &mut rng) {
                            let mut c = make_case(ch, lines, &content, cfg, &mut rng, true);
                            c.note = format!("sweep/a {} crlf={} final_nl={}", name, crlf, final_nl);
                            out.push(Planned { case: c, stratum: "sweep-framing" });
                        }
                    }
                }
            }
        }
        // library from_file on the same content
        for crlf in 0..2u64 {
            for final_nl in [true, false] {
                if name == "huge-valid" && (crlf != 0 || !final_nl) {
                    continue;
                }
                if let Some(content) = content_for("file", lines, crlf, final_nl, &mut rng) {
                    let mut c = make_probe_case(&content, &Cfg::default(), &mut rng);
                    c.note = format!("sweep/a probe {} crlf={} final_nl={}", name, crlf, final_nl);
                    out.push(Planned { case: c, stratum: "sweep-probe" });
                }
            }
        }
    }
    // (b) flag sweep: every single flag, every pair, thresholds 1..=4 x 1..=4, on the flag-sensitive inputs, every channel
    let sens: Vec<&(String, Vec<String>)> = corpus.iter().filter(|(n, _)| n.starts_with("flag-sensitive") || n == "prefix-share" || n.starts_with("flag-interactions")).collect();
    for cfg in flag_sweep_cfgs(thorough) {
        for (k, (name, lines)) in sens.iter().enumerate() {
            for (ci, ch) in CHANNELS.iter().enumerate() {
                // quick: rotate channels over inputs so that each (cfg, channel) and each (cfg, input) pair occurs
                if !thorough && (k + ci) % 2 == 1 {
                    continue;
                }
                let crlf = rng.below(3);
                let final_nl = rng.chance(1, 2);
                if let Some(content) = content_for(ch, lines, crlf, final_nl, &mut rng) {
                    let ff = rng.chance(1, 2);
                    let mut c = make_case(ch, lines, &content, &cfg, &mut rng, ff);
                    c.note = format!("sweep/b flags {} {}", name, cfg.encode());
                    out.push(Planned { case: c, stratum: "sweep-flags" });
                }
            }
        }
    }
    // (c) single faults: needs the fault-free call counts of each (input, channel)
    let fault_inputs: Vec<&(String, Vec<String>)> = corpus
        .iter()
        .filter(|(n, _)| ["two", "words", "utf8-widths", "cr-at-end", "empty-middle", "dup-heavy", "big-multibyte"].contains(&n.as_str()))
        .collect();
    for (name, lines) in &fault_inputs {
        for ch in ["stdin", "file", "file-via-stdin", "probe"] {
            let crlf = if name == "words" { 1 } else { 0 };
            let content = match content_for("file", lines, crlf, true, &mut rng) {
                Some(c) => c,
                None => continue,
            };
            let base = if ch == "probe" {
                make_probe_case(&content, &Cfg::default(), &mut rng)
            } else {
                make_case(ch, lines, &content, &Cfg::default(), &mut rng, true)
            };
            // fault-free run to learn how many calls of each class the program makes
            let obs = match run_in_slot(&base, bins, 20, 16) {
                Ok((o, _)) => o,
                Err(_) => continue,
            };
            let counts: Vec<(&str, usize)> = vec![
                ("r0", obs.reads_r0),
                ("rf", obs.reads_rf),
                ("op", obs.opens),
                ("st", obs.fired.len().min(0) + if ch == "stdin" { 0 } else { 2 }),
                ("w1", obs.writes_w1.max(1)),
            ];
            let long = name == "dup-heavy" || name == "big-multibyte";
            for (cls, n) in counts {
                let n = n.min(if name == "big-multibyte" { 12 } else if long { 3 } else { 6 });
                for idx in 0..n {
                    if name == "big-multibyte" && !(cls == "r0" || cls == "rf") {
                        continue;
                    }
                    let kinds: Vec<(&str, i64)> = match cls {
                        "r0" | "rf" if name == "big-multibyte" => vec![("eintr", 0), ("eof", 0), ("err", 5), ("chunk", 4097)],
                        "r0" | "rf" => vec![("eintr", 0), ("chunk", 1), ("chunk", 3), ("eof", 0), ("err", 5), ("err", 21), ("err", 104), ("err", 32)],
                        "op" => vec![("eintr", 0), ("err", 2), ("err", 13), ("err", 24), ("err", 40)],
                        "st" => vec![("size", 0), ("size", 1), ("size", content.len() as i64 + 4096), ("err", 5)],
                        _ => vec![("eintr", 0), ("chunk", 1), ("chunk", 3)],
                    };
                    for (kind, arg) in kinds {
                        let mut c = base.clone();
                        // idx fault-free calls first (explicit no-op events), then the fault
                        for _ in 0..idx {
                            c.events.push((cls.into(), "chunk".into(), 0));
                        }
                        c.events.push((cls.into(), kind.into(), arg));
                        c.note = format!("sweep/c {} single fault {}#{} {} {}", name, cls, idx, kind, arg);
                        out.push(Planned { case: c, stratum: "sweep-single-fault" });
                    }
                }
            }
            if !long {
                // uniform chunk sizes and every truncation offset
                for n in [1i64, 2, 3, 7] {
                    for cls in input_classes(ch).into_iter().filter(|c| *c == "r0" || *c == "rf") {
                        let mut c = base.clone();
                        c.dchunk.push((cls.into(), n));
                        c.dchunk.push(("w1".into(), n));
                        c.note = format!("sweep/c {} uniform chunk {} on {}", name, n, cls);
                        out.push(Planned { case: c, stratum: "sweep-chunking" });
                    }
                }
                let data_cls = if ch == "stdin" { "r0" } else { "rf" };
                for cut in 0..=content.len() {
                    if !thorough && content.len() > 24 && cut % 3 != 0 {
                        continue;
                    }
                    let mut c = base.clone();
                    if cut > 0 {
                        c.events.push((data_cls.into(), "chunk".into(), cut as i64));
                    }
                    c.events.push((data_cls.into(), "eof".into(), 0));
                    c.note = format!("sweep/c {} stream ends after {} bytes", name, cut);
                    out.push(Planned { case: c, stratum: "sweep-truncation" });
                }
                // pairs of faults on distinct call indices (smallest inputs only)
                if name == "two" {
                    let evs: Vec<(&str, &str, i64)> = vec![
                        (data_cls, "eintr", 0),
                        (data_cls, "chunk", 1),
                        (data_cls, "chunk", 2),
                        ("w1", "eintr", 0),
                        ("w1", "chunk", 1),
                        ("op", "eintr", 0),
                        ("st", "size", 0),
                        ("st", "size", 1),
                    ];
                    for a in &evs {
                        for b in &evs {
                            if (a.0 == "op" || a.0 == "st") && ch == "stdin" {
                                continue;
                            }
                            if (b.0 == "op" || b.0 == "st") && ch == "stdin" {
                                continue;
                            }
                            let mut c = base.clone();
                            c.events.push((a.0.into(), a.1.into(), a.2));
                            c.events.push((b.0.into(), b.1.into(), b.2));
                            c.note = format!("sweep/c {} fault pair {:?} {:?}", name, a, b);
                            out.push(Planned { case: c, stratum: "sweep-fault-pairs" });
                        }
                    }
                }
            }
        }
    }
    // (c2) a result larger than std's line buffer under sequences of short and interrupted writes
    if let Some((_, lines)) = corpus.iter().find(|(n, _)| n == "long-output") {
        let content = frame(lines, 0, true, &mut rng);
        let seqs: Vec<Vec<(&str, i64)>> = vec![
            vec![("chunk", 100), ("eintr", 0)],
            vec![("chunk", 1500), ("eintr", 0)],
            vec![("chunk", 1), ("chunk", 1), ("eintr", 0), ("chunk", 700), ("eintr", 0)],
            vec![("eintr", 0), ("chunk", 700), ("eintr", 0), ("eintr", 0), ("chunk", 3)],
            vec![("chunk", 1024), ("eintr", 0), ("chunk", 1024), ("eintr", 0)],
            vec![("chunk", 1023), ("chunk", 1), ("eintr", 0)],
        ];
        // a short write first, then an interrupted write at every later call index (std's line buffer absorbs
        // some calls and retries its own flushes, so which call the program itself issues varies)
        let mut seqs = seqs;
        for k in [1i64, 100, 700] {
            for gap in 0..6usize {
                let mut v: Vec<(&str, i64)> = vec![("chunk", k)];
                for _ in 0..gap {
                    v.push(("chunk", 0)); // a fault-free call
                }
                v.push(("eintr", 0));
                seqs.push(v);
            }
        }
        for ch in ["stdin", "file", "args"] {
            for seq in &seqs {
                if let Some(cont) = content_for(ch, lines, 0, true, &mut rng) {
                    let body = if ch == "args" { cont } else { content.clone() };
                    let mut c = make_case(ch, lines, &body, &Cfg::default(), &mut rng, true);
                    for (k, a) in seq {
                        c.events.push(("w1".into(), k.to_string(), *a));
                    }
                    c.note = format!("sweep/c2 long output, write faults {:?}", seq);
                    out.push(Planned { case: c, stratum: "sweep-write-sequences" });
                }
            }
            for n in [1i64, 7, 1000, 1024, 1025] {
                if let Some(cont) = content_for(ch, lines, 0, true, &mut rng) {
                    let body = if ch == "args" { cont } else { content.clone() };
                    let mut c = make_case(ch, lines, &body, &Cfg::default(), &mut rng, true);
                    c.dchunk.push(("w1".into(), n));
                    c.events.push(("w1".into(), "eintr".into(), 0));
                    c.note = format!("sweep/c2 long output, every write at most {} bytes", n);
                    out.push(Planned { case: c, stratum: "sweep-write-sequences" });
                }
            }
        }
    }
    // (d) unusable input
    for (name, bytes) in unusable_streams() {
        for ch in ["stdin", "file", "file-via-stdin", "probe"] {
            let mut c = if ch == "probe" {
                make_probe_case(&bytes, &Cfg::default(), &mut rng)
            } else {
                make_case(ch, &[], &bytes, &Cfg::default(), &mut rng, true)
            };
            c.note = format!("sweep/d unusable stream {}", name);
            out.push(Planned { case: c.clone(), stratum: "sweep-unusable" });
            // the same under chunked delivery
            for n in if bytes.len() > 200_000 { [8192i64, 65_536] } else { [1i64, 3] } {
                let mut c2 = c.clone();
                c2.dchunk.push(((if ch == "stdin" { "r0" } else { "rf" }).into(), n));
                c2.note = format!("sweep/d unusable stream {} chunk {}", name, n);
                out.push(Planned { case: c2, stratum: "sweep-unusable" });
            }
        }
    }
    for ch in ["file", "file-via-stdin", "probe"] {
        for mode in [FileMode::Absent, FileMode::RealDir] {
            let mut c = if ch == "probe" {
                make_probe_case(b"a\n", &Cfg::default(), &mut rng)
            } else {
                make_case(ch, &[], b"a\n", &Cfg::default(), &mut rng, true)
            };
            c.file_mode = mode.clone();
            c.note = format!("sweep/d {:?}", mode);
            out.push(Planned { case: c, stratum: "sweep-unusable" });
        }
    }
    // closed stdin (EBADF on the first read), invalid UTF-8 in the path read from stdin, wrong path
    {
        let mut c = make_case("stdin", &[], b"", &Cfg::default(), &mut rng, true);
        c.events.push(("r0".into(), "err".into(), EBADF));
        c.note = "sweep/d closed stdin".into();
        out.push(Planned { case: c, stratum: "sweep-unusable" });
        let mut c = make_case("file-via-stdin", &[], b"a\n", &Cfg::default(), &mut rng, true);
        c.stdin = vec![b'/', 0xFF, b'x', b'\n'];
        c.note = "sweep/d invalid UTF-8 in path on stdin".into();
        out.push(Planned { case: c, stratum: "sweep-unusable" });
        let mut c = make_case("file-via-stdin", &[], b"a\n", &Cfg::default(), &mut rng, true);
        c.stdin = b"".to_vec();
        c.note = "sweep/d empty path on stdin".into();
        out.push(Planned { case: c, stratum: "sweep-unusable" });
    }
    // (e) the same kind of cases with the shim not planning the path at all (no interception of open/stat/read on
    // it): anchors the planned-file cases to completely ordinary file access
    if scratch.is_some() {
        for (name, lines) in corpus.iter().filter(|(n, _)| ["two", "words", "flag-sensitive", "utf8-widths", "empty-middle", "cr-at-end", "dup-heavy", "blank-only"].contains(&n.as_str())) {
            for crlf in 0..2u64 {
                for final_nl in [true, false] {
                    if let Some(content) = content_for("file", lines, crlf, final_nl, &mut rng) {
                        for ch in ["file", "file-via-stdin", "probe"] {
                            let mut c = if ch == "probe" {
                                make_probe_case(&content, &busy, &mut rng)
                            } else {
                                make_case(ch, lines, &content, &busy, &mut rng, true)
                            };
                            c.file_mode = FileMode::RealFs;
                            c.note = format!("sweep/e unplanned real file {} crlf={} final_nl={}", name, crlf, final_nl);
                            out.push(Planned { case: c, stratum: "sweep-real-fs" });
                        }
                    }
                }
            }
        }
        for (name, bytes) in [("empty", vec![]), ("invalid", vec![b'a', b'\n', 0xFF, b'\n'])] {
            for ch in ["file", "file-via-stdin", "probe"] {
                let mut c = if ch == "probe" {
                    make_probe_case(&bytes, &Cfg::default(), &mut rng)
                } else {
                    make_case(ch, &[], &bytes, &Cfg::default(), &mut rng, true)
                };
                c.file_mode = FileMode::RealFs;
                c.note = format!("sweep/e unplanned real unusable file {}", name);
                out.push(Planned { case: c, stratum: "sweep-real-fs" });
            }
        }
    }
    // (e2) the file's name must not matter; a path followed by more text on stdin is not the planned path
    {
        let lines = vec!["a1".to_string(), "b,2".to_string()];
        let content = frame(&lines, 0, true, &mut rng);
        for name in FILE_NAMES {
            for ch in ["file", "file-via-stdin", "probe"] {
                let mut c = if ch == "probe" {
                    make_probe_case(&content, &busy, &mut rng)
                } else {
                    make_case(ch, &lines, &content, &busy, &mut rng, true)
                };
                c.file_name = name.to_string();
                c.note = format!("sweep/e2 file name {:?}", name);
                out.push(Planned { case: c.clone(), stratum: "sweep-file-names" });
                for (cls, errno) in [("op", 13i64), ("op", 21), ("rf", 5), ("op", 36)] {
                    let mut e = c.clone();
                    e.events.push((cls.into(), "err".into(), errno));
                    e.note = format!("sweep/e2 file name {:?}, {} fails with errno {}", name, cls, errno);
                    out.push(Planned { case: e, stratum: "sweep-file-names" });
                }
            }
        }
        let mut c = make_case("file-via-stdin", &lines, &content, &Cfg::default(), &mut rng, true);
        c.stdin = format!("{}\nsecond line\n", PLANNED_PATH).into_bytes();
        c.note = "sweep/e2 path followed by a second line on stdin".into();
        out.push(Planned { case: c, stratum: "sweep-unusable" });
    }
    // (e3) what stdin claims to be, and a relative file name: neither may matter
    {
        let lines = vec!["a1".to_string(), "b,2".to_string(), "ü".to_string()];
        let content = frame(&lines, 1, false, &mut rng);
        for kind in 1..=4u8 {
            for ch in ["stdin", "file-via-stdin"] {
                let mut c = make_case(ch, &lines, &content, &busy, &mut rng, true);
                c.stdin_kind = kind;
                c.note = format!("sweep/e3 stdin reports kind {}", kind);
                out.push(Planned { case: c, stratum: "sweep-stdin-kinds" });
            }
        }
        // what the file claims to be (`grex -f <(cmd)` hands over a FIFO, `-f /dev/...` a device): it is read all the same
        for kind in [2u8, 3] {
            for ch in ["file", "file-via-stdin", "probe"] {
                for crlf in [false, true] {
                    let content = frame(&lines, if crlf { 2 } else { 1 }, crlf, &mut rng);
                    let mut c = if ch == "probe" { make_probe_case(&content, &busy, &mut rng) } else { make_case(ch, &lines, &content, &busy, &mut rng, true) };
                    c.file_kind = kind;
                    c.note = format!("sweep/e3 the file reports kind {} ({})", kind, if kind == 2 { "fifo" } else { "character device" });
                    out.push(Planned { case: c, stratum: "sweep-file-kinds" });
                }
            }
        }
        // stdin is a regular file of which a first part was consumed before the program started (`{ read x; grex -; } < file`)
        for ch in ["stdin", "file-via-stdin"] {
            let mut c = make_case(ch, &lines, &content, &busy, &mut rng, true);
            let consumed = b"already consumed line\n";
            let mut all = consumed.to_vec();
            all.extend_from_slice(&c.stdin);
            c.stdin = all;
            c.stdin_kind = 1;
            c.stdin_offset = consumed.len();
            c.note = "sweep/e3 regular-file stdin at a non-zero offset".into();
            out.push(Planned { case: c, stratum: "sweep-stdin-kinds" });
        }
        for ch in ["file", "file-via-stdin", "probe"] {
            for name in ["cases.txt", "with space.txt", "-dash.txt"] {
                if *name == *"-dash.txt" && ch != "file-via-stdin" {
                    continue; // a leading hyphen is an option to clap; through stdin it is just a name
                }
                let mut c = if ch == "probe" { make_probe_case(&content, &busy, &mut rng) } else { make_case(ch, &lines, &content, &busy, &mut rng, true) };
                c.relative_path = true;
                c.file_name = name.to_string();
                c.note = format!("sweep/e3 relative path {:?}", name);
                out.push(Planned { case: c, stratum: "sweep-file-names" });
            }
        }
    }
    // (e4) a file name that is not valid UTF-8, a directory literally named `~`, variables whose names the binary itself
    // mentions next to the program's name, and a small address space (as a CI job or service manager may impose)
    {
        let lines = vec!["a1".to_string(), "b,2".to_string()];
        let content = frame(&lines, 0, true, &mut rng);
        for ch in ["file", "probe"] {
            for name_hex in ["636166e92e747874", "ff2e747874", "6e616d65c32e"] {
                let mut c = if ch == "probe" { make_probe_case(&content, &busy, &mut rng) } else { make_case(ch, &lines, &content, &busy, &mut rng, true) };
                c.file_name_hex = name_hex.to_string();
                c.note = format!("sweep/e4 file name that is not UTF-8 ({})", name_hex);
                out.push(Planned { case: c, stratum: "sweep-file-names" });
            }
        }
        for ch in ["file", "file-via-stdin", "probe"] {
            let mut c = if ch == "probe" { make_probe_case(&content, &busy, &mut rng) } else { make_case(ch, &lines, &content, &busy, &mut rng, true) };
            c.file_name = "~/cases.txt".into();
            c.relative_path = true;
            c.env = vec![("HOME".into(), "/nonexistent-home".into())];
            c.note = "sweep/e4 relative path below a directory named ~".into();
            out.push(Planned { case: c, stratum: "sweep-file-names" });
        }
        for name in discovered_env_names(&bins.grex) {
            for val in ["-r", "--digits --words", "1", "--no-anchors"] {
                for ch in ["args", "stdin"] {
                    let l2 = vec!["aaa1".to_string(), "bb22".to_string()];
                    let cont = frame(&l2, 0, true, &mut rng);
                    let mut c = make_case(ch, &l2, &cont, &Cfg::default(), &mut rng, true);
                    c.env = vec![(name.clone(), val.to_string())];
                    c.note = format!("sweep/e4 variable named in the binary: {}={}", name, val);
                    out.push(Planned { case: c, stratum: "sweep-discovered-env" });
                }
            }
        }
        for (k, ch) in CHANNELS.iter().enumerate() {
            for mb in [64u64, 128] {
                let l2 = vec!["alpha".to_string(), "beta1".to_string()];
                if let Some(cont) = content_for(ch, &l2, 0, true, &mut rng) {
                    let mut c = make_case(ch, &l2, &cont, if k % 2 == 0 { &busy } else { &bare }, &mut rng, true);
                    c.rlimit_as_mb = mb;
                    c.note = format!("sweep/e4 address space limited to {} MiB", mb);
                    out.push(Planned { case: c, stratum: "sweep-address-space-limit" });
                }
            }
        }
        // unusable input under the same limit: still a clean rejection
        let mut c = make_case("file", &[], b"", &Cfg::default(), &mut rng, true);
        c.rlimit_as_mb = 128;
        c.note = "sweep/e4 empty file, address space limited".into();
        out.push(Planned { case: c, stratum: "sweep-address-space-limit" });
    }
    // (f) outside the property, logged and never judged: stdin is a terminal; stdout fails hard
    {
        let mut c = make_case("stdin", &["a".to_string()], b"a\n", &Cfg::default(), &mut rng, true);
        c.tty = 1;
        c.note = "probe/f stdin is a terminal".into();
        out.push(Planned { case: c, stratum: "probe-not-judged" });
        for errno in [32i64, 28, 5] {
            let lines = vec!["a".to_string(), "b".to_string()];
            let mut c = make_case("args", &lines, b"", &Cfg::default(), &mut rng, true);
            c.events.push(("w1".into(), "err".into(), errno));
            c.note = format!("probe/f stdout fails with errno {}", errno);
            out.push(Planned { case: c, stratum: "stdout-failure" });
        }
        if let Some((_, lines)) = corpus.iter().find(|(n, _)| n == "long-output") {
            let content = frame(lines, 0, true, &mut rng);
            for errno in [28i64, 5] {
                for gap in 0..3usize {
                    let mut c = make_case("stdin", lines, &content, &Cfg::default(), &mut rng, true);
                    for _ in 0..gap {
                        c.events.push(("w1".into(), "chunk".into(), 400));
                    }
                    c.events.push(("w1".into(), "err".into(), errno));
                    c.note = format!("probe/f stdout fails with errno {} at write {} of a long result", errno, gap);
                    out.push(Planned { case: c, stratum: "stdout-failure" });
                }
            }
        }
    }
    // usage errors (clap): zero / non-numeric / overflowing thresholds, surrogates without escape
    for bad in [
        vec!["--min-repetitions", "0", "a"],
        vec!["--min-substring-length", "0", "a"],
        vec!["--min-repetitions", "x", "a"],
        vec!["--min-repetitions", "-1", "a"],
        vec!["--min-substring-length", "99999999999", "a"],
        vec!["--min-repetitions=0", "a"],
        vec!["--min-repetitions", "00", "a"],
        vec!["--min-repetitions", "+0", "a"],
        vec!["--min-substring-length", " 0", "a"],
        vec!["--min-repetitions=", "a"],
        vec!["--min-repetitions", "4294967296", "a"],
        vec!["--min-substring-length", "1.5", "a"],
        vec!["-e", "--with-surrogates", "--min-substring-length", "0", "a"],
        vec!["--with-surrogates", "a"],
        vec!["-r", "--min-repetitions", "0", "-f", PLANNED_PATH],
        vec!["--min-substring-length", "0", "-"],
    ] {
        let mut c = make_case("args", &["a".to_string()], b"", &Cfg::default(), &mut rng, true);
        c.channel = "clap-error".into();
        c.argv = bad.iter().map(|s| s.to_string()).collect();
        c.stdin = b"a\n".to_vec();
        c.file = b"a\n".to_vec();
        c.file_mode = FileMode::Memfd;
        c.path = PLANNED_PATH.into();
        c.note = format!("sweep/d usage error {:?}", bad);
        out.push(Planned { case: c, stratum: "sweep-usage-errors" });
    }
    out
}

/// Stratum 2: seeded search.
fn random_case(rng: &mut Rng) -> Planned {
    let hard = rng.chance(1, 4);
    let ch = if rng.chance(1, 8) { "probe" } else { *rng.pick(CHANNELS) };
    // mostly usable input; sometimes an unusable stream
    if ch != "args" && rng.chance(1, 12) {
        let streams = unusable_streams();
        let (name, bytes) = rng.pick(&streams).clone();
        let cfg = cli_cfg(rng, 20);
        let mut c = if ch == "probe" {
            make_probe_case(&bytes, &cfg, rng)
        } else {
            make_case(ch, &[], &bytes, &cfg, rng, true)
        };
        random_plan(&mut c, rng, hard);
        c.note = format!("search unusable {}", name);
        return Planned { case: c, stratum: if hard { "search-hard" } else { "search-benign" } };
    }
    let mut tries = 0;
    loop {
        tries += 1;
        let lines = if rng.chance(1, 5) {
            let c = corpus();
            rng.pick(&c).1.clone()
        } else {
            random_lines(rng)
        };
        let crlf = rng.below(3);
        let final_nl = rng.chance(2, 3);
        let chan = if ch == "probe" { "file" } else { ch };
        if let Some(content) = content_for(chan, &lines, crlf, final_nl, rng) {
            let density = *rng.pick(&[0u64, 10, 25, 50]);
            let mut cfg = cli_cfg(rng, density);
            if lines.iter().any(|l| l.len() > 400) {
                cfg = Cfg::default();
            }
            let ff = rng.chance(1, 2);
            let mut c = if ch == "probe" {
                make_probe_case(&content, &cfg, rng)
            } else {
                make_case(ch, &lines, &content, &cfg, rng, ff)
            };
            random_plan(&mut c, rng, hard);
            if rng.chance(1, 4) {
                c.env = random_env(rng);
            }
            if rng.chance(1, 6) {
                c.tty_out = true;
            }
            if rng.chance(1, 3) {
                c.file_name = rng.pick(FILE_NAMES).to_string();
            }
            if rng.chance(1, 5) {
                c.stdin_kind = rng.range(1, 4) as u8;
            }
            if rng.chance(1, 5) {
                c.relative_path = true;
            }
            if rng.chance(1, 8) && c.file_mode == FileMode::Memfd {
                c.file_kind = *rng.pick(&[2u8, 3]);
            }
            if rng.chance(1, 150) && c.stdin.len() + c.file.len() < 4096 && lines.iter().all(|l| l.len() < 64) && lines.len() < 64 {
                c.rlimit_as_mb = *rng.pick(&[96u64, 160, 256]);
            }
            c.note = "search".into();
            return Planned { case: c, stratum: if hard { "search-hard" } else { "search-benign" } };
        }
        if tries > 20 {
            let lines = vec!["a".to_string(), "b".to_string()];
            let content = frame(&lines, 0, true, rng);
            let c = make_case("stdin", &lines, &content, &Cfg::default(), rng, true);
            return Planned { case: c, stratum: "search-benign" };
        }
    }
}

/// C10 process facet: the same (set, settings) through the real binary under K different hash-key streams.
fn c10_cases(seed: u64, tier: &str) -> Vec<(usize, Planned)> {
    let mut out = vec![];
    let mut rng = Rng::new(derive(seed, &[0xC10]));
    let universes = if tier == "thorough" { 1500 } else { 60 };
    let k = if tier == "thorough" { 12 } else { 8 };
    let mut u = 0usize;
    let mut guard = 0;
    while u < universes && guard < universes * 20 {
        guard += 1;
        let profile = rng.below(9) as usize;
        let set = gen_set(&mut rng, profile, 8);
        let lines: Vec<String> = set.into_iter().collect();
        let ch = *rng.pick(&["args", "stdin", "file"]);
        let content = match content_for(ch, &lines, 0, true, &mut rng) {
            Some(c) => c,
            None => continue,
        };
        let density = *rng.pick(&[10u64, 30, 50]);
        let cfg = cli_cfg(&mut rng, density);
        let base = make_case(ch, &lines, &content, &cfg, &mut rng, true);
        for i in 0..k {
            let mut c = base.clone();
            c.seed = derive(seed, &[0xC10, u as u64, i as u64]);
            // a different presentation of the same set in half of the processes
            if i % 2 == 1 {
                let mut l2 = lines.clone();
                rng.shuffle(&mut l2);
                if rng.chance(1, 2) {
                    let x = rng.pick(&l2).clone();
                    l2.push(x);
                }
                let content2 = content_for(ch, &l2, 0, true, &mut rng).unwrap_or(content.clone());
                let mut c2 = make_case(ch, &l2, &content2, &cfg, &mut rng, true);
                c2.seed = c.seed;
                c = c2;
            }
            c.note = format!("c10 process facet universe {} stream {}", u, i);
            out.push((u, Planned { case: c, stratum: "c10-process" }));
        }
        u += 1;
    }
    out
}

// ---------------------------------------------------------------------------------------
// Execution
// ---------------------------------------------------------------------------------------

struct Done {
    idx: usize,
    case: Case,
    stratum: &'static str,
    obs: Observed,
    verdict: Verdict,
    n_records: usize,
}

fn execute_all(cases: Vec<Planned>, bins: Arc<Binaries>, jobs: usize, keep_every: usize) -> Result<Vec<Done>, String> {
    let cases = Arc::new(cases);
    let next = Arc::new(AtomicUsize::new(0));
    let out: Arc<Mutex<Vec<Done>>> = Arc::new(Mutex::new(vec![]));
    let errs: Arc<Mutex<Vec<String>>> = Arc::new(Mutex::new(vec![]));
    let mut hs = vec![];
    for slot in 0..jobs {
        let (cases, next, out, errs, bins) = (cases.clone(), next.clone(), out.clone(), errs.clone(), bins.clone());
        hs.push(std::thread::spawn(move || loop {
            let i = next.fetch_add(1, Ordering::SeqCst);
            if i >= cases.len() {
                break;
            }
            let p = &cases[i];
            let mut r = run_in_slot(&p.case, &bins, 30, slot);
            if let Ok((o, _)) = &r {
                if o.timed_out {
                    // a timeout is never a verdict by itself: once more with a longer limit
                    r = run_in_slot(&p.case, &bins, 120, slot);
                }
            }
            match r {
                Ok((mut obs, real_case)) => {
                    let verdict = judge(&real_case, &obs);
                    let n_records = obs.records;
                    // keep memory bounded on large batches: the full call log is only needed for the
                    // determinism sample (every 40th case), for samples and for violations
                    let sane = obs.started && (obs.stdout_pipe == obs.stdout_accepted || obs.timed_out);
                    if keep_every > 0 && i % keep_every != 0 && verdict.class.is_none() && sane {
                        obs.log.clear();
                        obs.log.shrink_to_fit();
                    }
                    out.lock().unwrap().push(Done {
                        idx: i,
                        case: p.case.clone(),
                        stratum: p.stratum,
                        obs,
                        verdict,
                        n_records,
                    });
                }
                Err(e) => errs.lock().unwrap().push(e),
            }
        }));
    }
    for h in hs {
        let _ = h.join();
    }
    let errs = errs.lock().unwrap().clone();
    if !errs.is_empty() {
        return Err(errs[0].clone());
    }
    let mut v = std::mem::take(&mut *out.lock().unwrap());
    v.sort_by_key(|d| d.idx);
    Ok(v)
}

/// The call log with the one legitimately run-dependent datum removed: the OS thread id that the
/// Rust panic message prints ("thread 'main' (12345) panicked").
fn normalised_log(o: &Observed) -> Vec<String> {
    // stderr is written in pieces; compare the record sequence without its payload, plus the whole text
    // The panic message contains the OS thread id, whose number of digits varies, so the number and size of the
    // stderr write records may legitimately vary under a chunking plan: stderr is compared as one text below,
    // its records and its script counter are left out of the sequence.
    let mut out: Vec<String> = o
        .log
        .iter()
        // requests for random bytes are left out as well: a program that starts threads of its own issues them from
        // several threads at once, and where they fall among the other calls is the kernel's scheduling, not the plan
        .filter(|l| !l.starts_with("@W w2") && !l.starts_with("@G"))
        .map(|l| {
            if l.starts_with("@END") {
                l.split(' ').filter(|t| !t.starts_with("w2=")).collect::<Vec<_>>().join(" ")
            } else {
                l.clone()
            }
        })
        .collect();
    let text = String::from_utf8_lossy(&o.stderr_accepted).to_string();
    let mut norm = String::new();
    let mut rest = text.as_str();
    while let Some(p) = rest.find("' (") {
        norm.push_str(&rest[..p + 3]);
        let tail = &rest[p + 3..];
        let digits = tail.chars().take_while(|c| c.is_ascii_digit()).count();
        if digits > 0 && tail[digits..].starts_with(')') {
            norm.push('N');
            rest = &tail[digits..];
        } else {
            rest = tail;
        }
    }
    norm.push_str(rest);
    // a message may name the input file, whose directory differs from worker slot to worker slot
    let mut cleaned = String::new();
    let mut r2 = norm.as_str();
    while let Some(p) = r2.find("/simenv-") {
        cleaned.push_str(&r2[..p]);
        let tail = &r2[p..];
        match tail.find("/w").filter(|i| tail[i + 2..].chars().take(2).all(|c| c.is_ascii_digit()) && tail.len() >= i + 4) {
            Some(i) => {
                cleaned.push_str("/simenv-PID/wNN");
                r2 = &tail[i + 4..];
            }
            None => {
                cleaned.push_str("/simenv-");
                r2 = &tail[8..];
            }
        }
    }
    cleaned.push_str(r2);
    out.push(format!("stderr={:?}", cleaned));
    out
}

fn sanity(d: &Done) -> Result<(), String> {
    if !d.obs.started {
        return Err(format!("shim did not start for case {} ({}): log {:?}", d.idx, d.case.note, d.obs.log.iter().take(3).collect::<Vec<_>>()));
    }
    if d.obs.stdout_pipe != d.obs.stdout_accepted && !d.obs.timed_out {
        return Err(format!("case {}: stdout pipe and shim record differ", d.idx));
    }
    Ok(())
}

fn expect_json(e: &Expect) -> Value {
    match e {
        Expect::Output(b) => json!({"output": String::from_utf8_lossy(b)}),
        Expect::Unusable(r) => json!({"unusable": r}),
        Expect::ClapError => json!("usage-error"),
        Expect::Either(b, r) => json!({"either_output": String::from_utf8_lossy(b), "or_rejection_because": r}),
        Expect::LibraryPanics(m) => json!({"library_panics": m}),
        Expect::NoSilentSuccess(_) => json!("no-silent-success (stdout refused the bytes)"),
        Expect::NotJudged(r) => json!({"not_judged": r}),
    }
}

fn violation_json(case: &Case, obs: &Observed, v: &Verdict) -> Value {
    json!({
        "class": v.class, "detail": v.detail, "channel": case.channel, "target": case.target, "note": case.note,
        "expected": expect_json(&v.expect),
        "observed": {
            "exit": obs.exit_code, "signal": obs.signal,
            "stdout": String::from_utf8_lossy(&obs.stdout_accepted), "stderr": String::from_utf8_lossy(&obs.stderr_accepted),
        },
        "signature": signature(case, obs, v),
    })
}

/// What identifies a finding: violation class, channel, and the panic site if there is one.
fn signature(case: &Case, obs: &Observed, v: &Verdict) -> String {
    let err = String::from_utf8_lossy(&obs.stderr_accepted).to_string();
    let site = err
        .find("panicked at ")
        .map(|i| err[i + 12..].split(|c| c == ':' || c == '\n').next().unwrap_or("").to_string())
        .unwrap_or_default();
    let why = match &v.expect {
        Expect::Unusable(r) => r.split(|c: char| c == '[' || c == '"').next().unwrap_or("").trim().to_string(),
        _ => String::new(),
    };
    format!("{}|{}|{}|{}|{}", v.class.clone().unwrap_or_default(), case.target, case.channel, site, why)
}

fn write_replay(dir: &str, name: &str, property: &str, case: &Case, viol: &Value, extra: Value) -> String {
    std::fs::create_dir_all(dir).ok();
    let path = format!("{}/{}.json", dir, name);
    let v = json!({
        "property": property, "engine": "simenv", "case": case.to_json(), "violation": viol, "extra": extra,
        "how_to_replay": "/verif/check --replay <this file>",
    });
    std::fs::write(&path, serde_json::to_string_pretty(&v).unwrap()).ok();
    path
}

/// Delta-debugging of a failing case while the same violation class persists.
fn minimise_case(case: &Case, sig: &str, bins: &Binaries) -> (Case, usize) {
    let mut cur = case.clone();
    let mut attempts = 0usize;
    // the same finding, not merely the same class: class, channel, panic site and reason must all persist
    let fails = |c: &Case, attempts: &mut usize| -> bool {
        *attempts += 1;
        match run_in_slot(c, bins, 20, 17) {
            Ok((o, m)) => {
                let v = judge(&m, &o);
                v.class.is_some() && signature(&m, &o, &v) == sig
            }
            Err(_) => false,
        }
    };
    let mut progress = true;
    while progress && attempts < 300 {
        progress = false;
        // fault-plan entries one by one
        let mut i = cur.events.len();
        while i > 0 {
            i -= 1;
            let mut c = cur.clone();
            c.events.remove(i);
            if fails(&c, &mut attempts) {
                cur = c;
                progress = true;
            }
        }
        if !cur.dchunk.is_empty() {
            let mut c = cur.clone();
            c.dchunk.clear();
            if fails(&c, &mut attempts) {
                cur = c;
                progress = true;
            }
        }
        // flags (argv entries that are not input)
        let mut i = cur.argv.len();
        while i > 0 {
            i -= 1;
            let a = cur.argv[i].clone();
            let is_input = cur.arg_lines.contains(&a) || a == "-" || a == "-f" || a == "--file" || a.starts_with("--file=") || a == PLANNED_PATH;
            if is_input || cur.channel == "clap-error" || cur.target == "probe" {
                continue;
            }
            // dropping a flag changes the settings the argv stands for: recompute cfg through the flag name
            let mut c = cur.clone();
            c.argv.remove(i);
            let mut cfg = c.cfg.clone();
            let known = drop_flag(&mut cfg, &a);
            if !known {
                continue;
            }
            c.cfg = cfg;
            if fails(&c, &mut attempts) {
                cur = c;
                progress = true;
            }
        }
        // stream content: drop lines from the end, then bytes from the end
        for which in 0..2 {
            let data = if which == 0 { cur.file.clone() } else if cur.channel == "stdin" { cur.stdin.clone() } else { continue };
            if which == 0 && cur.file_mode != FileMode::Memfd {
                continue;
            }
            let mut d = data;
            let mut step = d.len() / 2;
            while step >= 1 && attempts < 300 {
                if d.len() >= step {
                    let mut d2 = d.clone();
                    d2.truncate(d.len() - step);
                    let mut c = cur.clone();
                    if which == 0 {
                        c.file = d2.clone()
                    } else {
                        c.stdin = d2.clone()
                    }
                    if fails(&c, &mut attempts) {
                        cur = c;
                        d = d2;
                        progress = true;
                        continue;
                    }
                }
                step /= 2;
            }
        }
        // argument lines
        if cur.channel == "args" {
            let mut i = cur.arg_lines.len();
            while i > 0 && cur.arg_lines.len() > 1 {
                i -= 1;
                let mut c = cur.clone();
                let l = c.arg_lines.remove(i);
                if let Some(p) = c.argv.iter().position(|a| *a == l) {
                    c.argv.remove(p);
                }
                if fails(&c, &mut attempts) {
                    cur = c;
                    progress = true;
                }
            }
        }
    }
    (cur, attempts)
}

fn drop_flag(cfg: &mut Cfg, a: &str) -> bool {
    match a {
        "-d" | "--digits" => cfg.digits = false,
        "-D" | "--non-digits" => cfg.non_digits = false,
        "-s" | "--spaces" => cfg.spaces = false,
        "-S" | "--non-spaces" => cfg.non_spaces = false,
        "-w" | "--words" => cfg.words = false,
        "-W" | "--non-words" => cfg.non_words = false,
        "-r" | "--repetitions" => cfg.repetitions = false,
        "-i" | "--ignore-case" => cfg.ignore_case = false,
        "-g" | "--capture-groups" => cfg.capture = false,
        "-x" | "--verbose" => cfg.verbose = false,
        "-c" | "--colorize" => cfg.colorize = false,
        _ => return false,
    }
    true
}

fn mode_run(args: &[String]) -> i32 {
    let t0 = Instant::now();
    let facet = arg_value(args, "--facet").unwrap_or_else(|| "c12".into());
    let tier = arg_value(args, "--tier").unwrap_or_else(|| "quick".into());
    let seed: u64 = arg_value(args, "--seed").and_then(|s| s.parse().ok()).unwrap_or(DEFAULT_SEED);
    let jobs: usize = arg_value(args, "--jobs").and_then(|s| s.parse().ok()).unwrap_or(16);
    let evidence = arg_value(args, "--evidence");
    let replay_dir = arg_value(args, "--replay-dir").unwrap_or_else(|| "/verif/replays".into());
    let bins = Arc::new(bins_from(args));
    grex_sim::model::install_quiet_panic_hook();
    println!("simenv: facet={} VERIF_SEED={} tier={} grex={}", facet, seed, tier, bins.grex);

    if facet == "c10" {
        return run_c10(seed, &tier, bins, jobs, evidence, &replay_dir, t0);
    }

    let scratch = bins.scratch.clone();
    let mut cases = sweep_cases(seed, &tier, &bins, Some(&scratch));
    let n_sweep = cases.len();
    let n_search: usize = arg_value(args, "--search")
        .and_then(|s| s.parse().ok())
        .unwrap_or(if tier == "thorough" { 250_000 } else { 6_000 });
    let mut rng = Rng::new(derive(seed, &[0x5EA2C4]));
    for _ in 0..n_search {
        cases.push(random_case(&mut rng));
    }
    // determinism sample: every 40th case is executed twice
    let total = cases.len();
    let doubles: Vec<Planned> = cases
        .iter()
        .enumerate()
        .filter(|(i, _)| i % 40 == 0)
        .map(|(_, p)| Planned { case: p.case.clone(), stratum: p.stratum })
        .collect();
    let done = match execute_all(cases, bins.clone(), jobs, 40) {
        Ok(d) => d,
        Err(e) => {
            println!("HARNESS-ERROR {}", e);
            return 2;
        }
    };
    let done2 = match execute_all(doubles, bins.clone(), jobs, 1) {
        Ok(d) => d,
        Err(e) => {
            println!("HARNESS-ERROR {}", e);
            return 2;
        }
    };
    for (k, d2) in done2.iter().enumerate() {
        let d1 = &done[k * 40];
        if normalised_log(&d1.obs) != normalised_log(&d2.obs) || d1.obs.exit_code != d2.obs.exit_code || d1.obs.stdout_pipe != d2.obs.stdout_pipe {
            println!("HARNESS-ERROR case {} is not deterministic under the same plan ({})", d1.idx, d1.case.note);
            let (a, b) = (normalised_log(&d1.obs), normalised_log(&d2.obs));
            for i in 0..a.len().max(b.len()) {
                if a.get(i) != b.get(i) {
                    println!("  first difference at record {}:\n   {:?}\n   {:?}", i, a.get(i), b.get(i));
                    break;
                }
            }
            println!("  argv {:?} exit {:?}/{:?}", d1.case.argv, d1.obs.exit_code, d2.obs.exit_code);
            return 2;
        }
    }
    for d in &done {
        if let Err(e) = sanity(d) {
            println!("HARNESS-ERROR {}", e);
            return 2;
        }
    }

    // ---- aggregate -------------------------------------------------------------------
    let mut fired: BTreeMap<String, u64> = BTreeMap::new();
    let mut strata: BTreeMap<String, u64> = BTreeMap::new();
    let mut channels: BTreeMap<String, u64> = BTreeMap::new();
    let mut expect_kinds: BTreeMap<&'static str, u64> = BTreeMap::new();
    let mut nontrivial: BTreeSet<u64> = BTreeSet::new();
    let mut calls = 0u64;
    let mut probes: BTreeMap<&'static str, u64> = BTreeMap::new();
    let mut flagsets: BTreeSet<String> = BTreeSet::new();
    let mut unfired_events = 0u64;
    for d in &done {
        *strata.entry(d.stratum.to_string()).or_insert(0) += 1;
        *channels.entry(format!("{}:{}", d.case.target, d.case.channel)).or_insert(0) += 1;
        for f in &d.obs.fired {
            *fired.entry(f.clone()).or_insert(0) += 1;
        }
        for (_, a, b) in &d.obs.script_left {
            unfired_events += (b - a) as u64;
        }
        calls += d.n_records as u64;
        flagsets.insert(d.case.cfg.encode());
        let ek = match d.verdict.expect {
            Expect::Output(_) => "faithful-output",
            Expect::Unusable(_) => "clean-rejection",
            Expect::ClapError => "usage-error",
            Expect::Either(_, _) => "either",
            Expect::LibraryPanics(_) => "library-panics(not judged)",
            Expect::NoSilentSuccess(_) => "no-silent-success",
            Expect::NotJudged(_) => "not-judged(probe)",
        };
        *expect_kinds.entry(ek).or_insert(0) += 1;
        let nontriv = !d.obs.fired.is_empty() || d.obs.reads_r0 + d.obs.reads_rf >= 2;
        if nontriv {
            let fp = fnv1a(format!("{:?}|{:?}|{:?}|{:?}|{:?}|{:?}|{:?}", d.case.argv, d.case.stdin, d.case.file, d.case.events, d.case.dchunk, d.case.file_mode, (&d.case.env, d.case.tty_out, &d.case.file_name, d.case.stdin_kind, d.case.file_kind, d.case.relative_path, &d.case.file_name_hex, d.case.rlimit_as_mb)).as_bytes());
            nontrivial.insert(fp);
        }
        // reach probes
        let data = if d.case.channel == "stdin" { &d.case.stdin } else { &d.case.file };
        if d.obs.fired.iter().any(|f| f.ends_with(":chunk") || f.ends_with(":dchunk")) {
            if data.iter().any(|b| *b >= 0x80) {
                *probes.entry("multibyte_content_delivered_in_chunks").or_insert(0) += 1;
            }
            if data.windows(2).any(|w| w == b"\r\n") {
                *probes.entry("crlf_content_delivered_in_chunks").or_insert(0) += 1;
            }
        }
        if d.obs.writes_w1 >= 2 {
            *probes.entry("stdout_write_split").or_insert(0) += 1;
        }
        if d.obs.fired.iter().any(|f| f == "st:size") {
            *probes.entry("size_hint_lie").or_insert(0) += 1;
        }
        if d.obs.fired.iter().any(|f| f == "op:eintr") && d.obs.opens >= 2 {
            *probes.entry("open_retried_after_eintr").or_insert(0) += 1;
        }
        if d.obs.eof_injected_r0 || d.obs.eof_injected_rf {
            *probes.entry("stream_ended_early").or_insert(0) += 1;
        }
    }

    // ---- violations ---------------------------------------------------------------------
    let mut by_sig: BTreeMap<String, Vec<&Done>> = BTreeMap::new();
    for d in &done {
        if d.verdict.class.is_some() {
            by_sig.entry(signature(&d.case, &d.obs, &d.verdict)).or_default().push(d);
        }
    }
    let mut n_viol = 0;
    for (sig, ds) in &by_sig {
        let d = ds[0];
        let class = d.verdict.class.clone().unwrap();
        let (min, attempts) = if std::env::var("VERIF_NO_MINIMISE").as_deref() == Ok("1") {
            (d.case.clone(), 0)
        } else {
            minimise_case(&d.case, sig, &bins)
        };
        // re-run the minimised case twice before it is written
        let stable = (0..2).all(|_| {
            run_in_slot(&min, &bins, 20, 17)
                .map(|(o, m)| {
                    let v = judge(&m, &o);
                    v.class.is_some() && &signature(&m, &o, &v) == sig
                })
                .unwrap_or(false)
        });
        let (final_case, obs, verdict) = if stable {
            let (o, m) = run_in_slot(&min, &bins, 20, 17).unwrap();
            let v = judge(&m, &o);
            if v.class.is_some() {
                (min, o, v)
            } else {
                (d.case.clone(), d.obs.clone(), d.verdict.clone())
            }
        } else {
            (d.case.clone(), d.obs.clone(), d.verdict.clone())
        };
        let vj = violation_json(&final_case, &obs, &verdict);
        let name = format!("C12-simenv-seed{}-case{}", seed, d.idx);
        let path = write_replay(&replay_dir, &name, "C12", &final_case, &vj, json!({"occurrences": ds.len(), "minimised_with_runs": attempts, "signature": sig}));
        println!("VIOLATION-JSON {}", json!({"property": "C12", "replay": path, "signature": sig, "class": class, "occurrences": ds.len(), "detail": verdict.detail, "note": d.case.note}));
        n_viol += 1;
    }

    // ---- evidence --------------------------------------------------------------------------
    let wall = t0.elapsed().as_secs_f64();
    if let Some(p) = evidence {
        let mut samples: Vec<Value> = vec![];
        for d in done.iter().filter(|d| d.stratum.starts_with("search") && !d.obs.fired.is_empty() && !d.obs.log.is_empty()).take(2) {
            samples.push(json!({"case": d.case.to_json(), "expected": expect_json(&d.verdict.expect), "exit": d.obs.exit_code, "log": d.obs.log.iter().take(30).collect::<Vec<_>>()}));
        }
        for d in done.iter().filter(|d| d.stratum == "sweep-unusable").take(1) {
            samples.push(json!({"case": d.case.to_json(), "expected": expect_json(&d.verdict.expect), "exit": d.obs.exit_code, "stderr": String::from_utf8_lossy(&d.obs.stderr_accepted)}));
        }
        let ev = json!({
            "engine": "simenv", "tier": tier, "seed": seed, "wall_s": wall,
            "evaluations": total,
            "process_lifetimes": total + done2.len(),
            "runs_per_hour": ((total + done2.len()) as f64 / wall * 3600.0) as u64,
            "sweep_cases": n_sweep, "search_cases": n_search,
            "by_stratum": strata, "by_channel": channels, "by_required_outcome": expect_kinds,
            "distinct_flag_configurations": flagsets.len(),
            "fault_kinds_fired": fired,
            "scripted_events_not_reached": unfired_events,
            "intercepted_call_records": calls,
            "simulated_time": "none: grex reads no clock; logical steps = intercepted libc calls",
            "reach_probes": probes,
            "cases_with_extra_environment": done.iter().filter(|d| !d.case.env.is_empty()).count(),
            "cases_with_stdout_as_terminal": done.iter().filter(|d| d.case.tty_out).count(),
            "determinism_double_runs": done2.len(),
            "distinct_nontrivial": nontrivial.len(),
            "rule": "one evaluation = one process lifetime of the real binary under one plan; distinct by (argv, stdin, file, plan); non-trivial = at least one scripted fault fired or the input stream was read with >= 2 read calls",
            "samples": samples,
            "violations": n_viol,
            "real_code": ["the unmodified release grex binary (clap, main.rs, library, std I/O layers)", "fromfile_probe -> RegExpBuilder::from_file", "dynamic loader, kernel execve, memfd"],
            "stubbed": ["isatty(0)", "read(0)", "open/stat/read of the planned path (faults layered over a real memfd)", "write(1), write(2)", "getrandom"],
        });
        std::fs::write(&p, serde_json::to_string_pretty(&ev).unwrap()).ok();
    }
    println!(
        "simenv: {} process lifetimes ({} sweep + {} search + {} determinism doubles), {} distinct non-trivial, {} violation signatures, {:.1}s",
        total + done2.len(),
        n_sweep,
        n_search,
        done2.len(),
        nontrivial.len(),
        n_viol,
        wall
    );
    let _ = std::fs::remove_dir_all(&scratch);
    if n_viol > 0 {
        1
    } else {
        0
    }
}

fn run_c10(seed: u64, tier: &str, bins: Arc<Binaries>, jobs: usize, evidence: Option<String>, replay_dir: &str, t0: Instant) -> i32 {
    let tagged = c10_cases(seed, tier);
    let groups: Vec<usize> = tagged.iter().map(|(u, _)| *u).collect();
    let cases: Vec<Planned> = tagged.into_iter().map(|(_, p)| p).collect();
    let total = cases.len();
    let done = match execute_all(cases, bins.clone(), jobs, 1) {
        Ok(d) => d,
        Err(e) => {
            println!("HARNESS-ERROR {}", e);
            return 2;
        }
    };
    for d in &done {
        if let Err(e) = sanity(d) {
            println!("HARNESS-ERROR {}", e);
            return 2;
        }
    }
    let mut by_group: BTreeMap<usize, Vec<&Done>> = BTreeMap::new();
    for d in &done {
        by_group.entry(groups[d.idx]).or_default().push(d);
    }
    let mut n_viol = 0;
    let mut getrandom_calls = 0u64;
    let mut samples = vec![];
    let mut distinct_streams: BTreeSet<u64> = BTreeSet::new();
    let mut nontrivial_groups = 0u64;
    for (g, ds) in &by_group {
        let outs: BTreeSet<(Option<i32>, Vec<u8>)> = ds.iter().map(|d| (d.obs.exit_code, d.obs.stdout_accepted.clone())).collect();
        for d in ds {
            getrandom_calls += d.obs.getrandom as u64;
            distinct_streams.insert(d.case.seed);
        }
        if ds.iter().filter(|d| d.obs.getrandom > 0).count() >= 2 {
            nontrivial_groups += 1;
        }
        if samples.len() < 2 {
            samples.push(json!({"argv": ds[0].case.argv, "hash_key_streams": ds.iter().map(|d| d.case.seed.to_string()).collect::<Vec<_>>(), "stdout_of_all": String::from_utf8_lossy(&ds[0].obs.stdout_accepted)}));
        }
        // a library panic is a value here: consistent panics are consistent (C07 is not claimed)
        if outs.len() > 1 {
            let a = ds[0];
            let b = ds.iter().find(|d| d.obs.stdout_accepted != a.obs.stdout_accepted || d.obs.exit_code != a.obs.exit_code).unwrap();
            let vj = json!({
                "class": "process_results_differ", "universe": g,
                "first": {"argv": a.case.argv, "seed": a.case.seed.to_string(), "stdout": String::from_utf8_lossy(&a.obs.stdout_accepted), "exit": a.obs.exit_code},
                "second": {"argv": b.case.argv, "seed": b.case.seed.to_string(), "stdout": String::from_utf8_lossy(&b.obs.stdout_accepted), "exit": b.obs.exit_code},
            });
            let name = format!("C10-simenv-seed{}-universe{}", seed, g);
            let path = write_replay(replay_dir, &name, "C10", &b.case, &vj, json!({"reference_case": a.case.to_json()}));
            println!("VIOLATION-JSON {}", json!({"property": "C10", "replay": path, "signature": format!("process_results_differ|{}", g), "class": "process_results_differ", "detail": vj}));
            n_viol += 1;
            if n_viol >= 3 {
                break;
            }
        }
    }
    let wall = t0.elapsed().as_secs_f64();
    if let Some(p) = evidence {
        let ev = json!({
            "engine": "simenv(c10 process facet)", "tier": tier, "seed": seed, "wall_s": wall,
            "evaluations": total, "universes": by_group.len(), "distinct_hash_key_streams": distinct_streams.len(),
            "getrandom_calls_served": getrandom_calls,
            "distinct_nontrivial": nontrivial_groups,
            "rule": "one evaluation = one process lifetime of the real grex binary under one simulator-chosen hash-key stream; a universe (set, settings) is non-trivial when at least two of its processes actually drew hash keys; all stdouts of a universe must be byte-identical, across streams and across presentations (order, duplicates) of the set",
            "samples": samples, "violations": n_viol,
            "real_code": ["the unmodified release grex binary"], "stubbed": ["getrandom (hash-key stream)", "stdin/file delivery"],
        });
        std::fs::write(&p, serde_json::to_string_pretty(&ev).unwrap()).ok();
    }
    println!("simenv(c10): {} process lifetimes over {} universes, {} violations, {:.1}s", total, by_group.len(), n_viol, wall);
    if n_viol > 0 {
        1
    } else {
        0
    }
}

fn mode_replay(args: &[String]) -> i32 {
    let path = match args.iter().skip(1).find(|a| !a.starts_with("--") && !a.contains("/target/") && !a.ends_with(".so")) {
        Some(p) => p.clone(),
        None => {
            eprintln!("usage: simenv replay <file> [--grex P --probe P --shim P]");
            return 2;
        }
    };
    let bins = bins_from(args);
    grex_sim::model::install_quiet_panic_hook();
    let text = match std::fs::read_to_string(&path) {
        Ok(t) => t,
        Err(e) => {
            println!("HARNESS-ERROR {}: {}", path, e);
            return 2;
        }
    };
    let v: Value = match serde_json::from_str(&text) {
        Ok(v) => v,
        Err(e) => {
            println!("HARNESS-ERROR {}", e);
            return 2;
        }
    };
    let case = match Case::from_json(&v["case"]) {
        Some(c) => c,
        None => {
            println!("HARNESS-ERROR bad case in replay file");
            return 2;
        }
    };
    let (obs, case) = match run_in_slot(&case, &bins, 60, 18) {
        Ok(x) => x,
        Err(e) => {
            println!("HARNESS-ERROR {}", e);
            return 2;
        }
    };
    let _ = std::fs::remove_dir_all(&bins.scratch);
    if !obs.started {
        println!("HARNESS-ERROR shim did not start");
        return 2;
    }
    for l in obs.log.iter().take(60) {
        println!("  {}", if l.len() > 160 { &l[..160] } else { l });
    }
    println!("  exit={:?} signal={:?}", obs.exit_code, obs.signal);
    if v["property"] == "C10" {
        // process facet: compare with the reference case
        if let Some(rc) = Case::from_json(&v["extra"]["reference_case"]) {
            let ro = match run_in_slot(&rc, &bins, 60, 18) {
                Ok((o, _)) => o,
                Err(e) => {
                    println!("HARNESS-ERROR {}", e);
                    return 2;
                }
            };
            if ro.stdout_accepted != obs.stdout_accepted || ro.exit_code != obs.exit_code {
                println!(
                    "REPLAY-VIOLATION class=process_results_differ {:?} vs {:?}",
                    String::from_utf8_lossy(&ro.stdout_accepted),
                    String::from_utf8_lossy(&obs.stdout_accepted)
                );
                return 1;
            }
        }
        println!("REPLAY-OK no violation reproduced");
        return 0;
    }
    let verdict = judge(&case, &obs);
    match &verdict.class {
        Some(c) => {
            println!("REPLAY-VIOLATION class={} {}", c, violation_json(&case, &obs, &verdict));
            1
        }
        None => {
            println!("REPLAY-OK no violation reproduced (required: {})", expect_json(&verdict.expect));
            0
        }
    }
}

fn main() {
    let args: Vec<String> = std::env::args().skip(1).collect();
    let _ = Outcome::Ok(String::new());
    let code = match args.first().map(|s| s.as_str()) {
        Some("run") => mode_run(&args),
        Some("replay") => mode_replay(&args),
        _ => {
            eprintln!("usage: simenv run|replay ...");
            2
        }
    };
    std::process::exit(code);
}
