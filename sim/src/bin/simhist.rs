//! simhist — deterministic simulation of builder call histories on scheduled caller threads
//! with simulator-owned hash keys (property C10). See /verif/DESIGN.md §2.1, §4.
//!
//! Modes:
//!   run        driver: spawns one worker process per episode, audits keys in fresh processes,
//!              minimises and writes a replay file on violation, writes the evidence file
//!   worker     one episode = one simulated process lifetime
//!   golden-one canonical build of one key in a single-shot process (key JSON on stdin)
//!   replay     re-executes a replay file in this (fresh) process
//!   minimise   delta-debugs a replay file

use grex_sim::episode::*;
use grex_sim::exec::*;
use grex_sim::model::*;
use grex_sim::model::install_quiet_panic_hook;
use grex_sim::prng::*;
use grex_sim::validate;
use grex_sim::workload::*;
use serde_json::{json, Value};
use std::collections::{BTreeMap, BTreeSet};
use std::io::{Read, Write};
use std::process::{Command, Stdio};
use std::sync::atomic::{AtomicUsize, Ordering};
use std::sync::{Arc, Mutex};
use std::time::{Duration, Instant};

/// The process-wide source of hash keys. std looks this symbol up with dlsym (it is exported from
/// the executable by build.rs), so every `RandomState` in the process is keyed by the simulator.
///
/// # Safety
/// Called by std/libc with a valid buffer.
#[no_mangle]
pub unsafe extern "C" fn getrandom(buf: *mut u8, len: usize, _flags: u32) -> isize {
    fill_random(buf, len);
    len as isize
}

/// The process-wide clock. Client threads selected by the simulator read a clock that jumps forward; every
/// other thread (driver, oracle, main) reads the real one. Exported like `getrandom` so that std's
/// `Instant::now()` / `SystemTime::now()` resolve to it.
///
/// # Safety
/// Called by std/libc with a valid pointer.
#[no_mangle]
pub unsafe extern "C" fn clock_gettime(clk: libc::clockid_t, ts: *mut libc::timespec) -> libc::c_int {
    let r = libc::syscall(libc::SYS_clock_gettime, clk, ts) as libc::c_int;
    if r == 0 && !ts.is_null() {
        if let Some(off) = sim_clock_offset() {
            let t = &mut *ts;
            let total = t.tv_nsec as i64 + (off % 1_000_000_000);
            t.tv_sec += (off / 1_000_000_000) as libc::time_t + (total / 1_000_000_000) as libc::time_t;
            t.tv_nsec = (total % 1_000_000_000) as _;
        }
    }
    r
}

static REPLAY_MARGIN_MB: std::sync::atomic::AtomicU64 = std::sync::atomic::AtomicU64::new(0);

fn limit_address_space_to_margin(margin_mb: u64) {
    let vm_kb: u64 = std::fs::read_to_string("/proc/self/status")
        .ok()
        .and_then(|s| s.lines().find(|l| l.starts_with("VmSize:")).and_then(|l| l.split_whitespace().nth(1).and_then(|x| x.parse().ok())))
        .unwrap_or(0);
    if vm_kb > 0 {
        let limit = (vm_kb << 10) + ((margin_mb + 24) << 20);
        let lim = libc::rlimit { rlim_cur: limit, rlim_max: limit };
        unsafe {
            libc::setrlimit(libc::RLIMIT_AS, &lim);
        }
    }
}

const ORACLE_HASH_SEED: u64 = 0x0C0A_C1E0_0000_0001;
const MAIN_HASH_SEED: u64 = 0x3A13_0000_0000_0001;
const DEFAULT_SEED: u64 = 20261003;

fn arg_value(args: &[String], name: &str) -> Option<String> {
    args.iter().position(|a| a == name).and_then(|i| args.get(i + 1).cloned())
}
fn has_flag(args: &[String], name: &str) -> bool {
    args.iter().any(|a| a == name)
}

fn process_setup() {
    set_hash_stream(MAIN_HASH_SEED);
    grex_sim::model::install_quiet_panic_hook();
    grex::verif::set_point_hook(Some(point_hook));
}

/// Start-up self-test: the hash-key seam must really be in use.
fn seam_selftest() -> Result<(), String> {
    let before = GETRANDOM_CALLS.load(Ordering::SeqCst);
    let t = std::thread::spawn(|| {
        set_hash_stream(7);
        let mut a: std::collections::HashSet<u32> = std::collections::HashSet::new();
        for i in 0..64 {
            a.insert(i);
        }
        a.iter().copied().collect::<Vec<u32>>()
    });
    let order1 = t.join().map_err(|_| "selftest thread panicked")?;
    let t2 = std::thread::spawn(|| {
        set_hash_stream(7);
        let mut a: std::collections::HashSet<u32> = std::collections::HashSet::new();
        for i in 0..64 {
            a.insert(i);
        }
        a.iter().copied().collect::<Vec<u32>>()
    });
    let order2 = t2.join().map_err(|_| "selftest thread panicked")?;
    let t3 = std::thread::spawn(|| {
        set_hash_stream(8);
        let mut a: std::collections::HashSet<u32> = std::collections::HashSet::new();
        for i in 0..64 {
            a.insert(i);
        }
        a.iter().copied().collect::<Vec<u32>>()
    });
    let order3 = t3.join().map_err(|_| "selftest thread panicked")?;
    let after = GETRANDOM_CALLS.load(Ordering::SeqCst);
    if after <= before {
        return Err("getrandom seam not in use: std did not call the harness' getrandom".into());
    }
    if order1 != order2 {
        return Err("same hash stream gave different HashSet orders".into());
    }
    if order1 == order3 {
        return Err("different hash streams gave the same HashSet order (64 elements)".into());
    }
    Ok(())
}

// ---------------------------------------------------------------------------------------
// golden-one
// ---------------------------------------------------------------------------------------

fn mode_golden_one(args: &[String]) -> i32 {
    let hs: u64 = arg_value(args, "--hash-seed").and_then(|s| s.parse().ok()).unwrap_or(1);
    set_hash_stream(hs);
    grex_sim::model::install_quiet_panic_hook();
    let mut s = String::new();
    std::io::stdin().read_to_string(&mut s).ok();
    let key = match Key::decode(s.trim()) {
        Some(k) => k,
        None => {
            eprintln!("golden-one: cannot parse key");
            return 2;
        }
    };
    // run on a labelled thread with a big stack, like clients do
    let h = std::thread::Builder::new()
        .stack_size(8 << 20)
        .spawn(move || {
            set_hash_stream(hs);
            key.golden()
        })
        .unwrap();
    let o = h.join().unwrap_or(Outcome::Panic("<golden thread died>".into()));
    println!("{}", o.to_json());
    0
}

fn fresh_golden(key: &Key, hash_seed: u64) -> Result<Outcome, String> {
    let exe = std::env::current_exe().map_err(|e| e.to_string())?;
    let mut gcmd = Command::new(exe);
    grex_sim::penv::clear_for_golden(&mut gcmd);
    let mut child = gcmd
        .arg("golden-one")
        .arg("--hash-seed")
        .arg(hash_seed.to_string())
        .stdin(Stdio::piped())
        .stdout(Stdio::piped())
        .stderr(Stdio::null())
        .spawn()
        .map_err(|e| e.to_string())?;
    child
        .stdin
        .take()
        .unwrap()
        .write_all(key.encode().as_bytes())
        .map_err(|e| e.to_string())?;
    let out = child.wait_with_output().map_err(|e| e.to_string())?;
    let v: Value = serde_json::from_slice(&out.stdout).map_err(|e| format!("golden-one output: {}", e))?;
    Outcome::from_json(&v).ok_or_else(|| "golden-one: bad outcome".to_string())
}

// ---------------------------------------------------------------------------------------
// worker
// ---------------------------------------------------------------------------------------

fn workload_fingerprint(spec: &RunSpec) -> u64 {
    let mut h = fnv1a(b"wl");
    for c in &spec.clients {
        h = fnv_mix(h, &c.hash_seed.to_le_bytes());
        for op in &c.ops {
            h = fnv_mix(h, op.to_json().to_string().as_bytes());
        }
    }
    h
}

struct EpisodeOutcome {
    json: Value,
    violation: Option<Value>,
}

/// Runs a list/generator of runs in this process, checking each. Stops at the first violation.
fn run_episode(
    mut next_run: impl FnMut(usize) -> Option<RunSpec>,
    want_sample: bool,
    check_fresh_all: bool,
) -> EpisodeOutcome {
    let mut oracle = Oracle::new(ORACLE_HASH_SEED);
    let mut stats = HistoryStats::default();
    let mut log_hash = fnv1a(b"simhist-log");
    let mut executed: Vec<RunSpec> = vec![];
    let mut total_events = 0u64;
    let mut total_clients = 0u64;
    let mut switches = 0u64;
    let mut switches_in_build = 0u64;
    let mut lock_handovers = 0u64;
    let mut decisions_total = 0u64;
    let mut site_hits = vec![0u64; SITES.len()];
    let mut nontrivial_fps: Vec<u64> = vec![];
    let mut schedule_fps: BTreeSet<u64> = BTreeSet::new();
    let mut hash_streams = 0u64;
    let mut op_kinds: BTreeMap<&'static str, u64> = BTreeMap::new();
    let mut violation: Option<Value> = None;
    let mut harness_error: Option<String> = None;
    let mut sample: Option<Value> = None;
    let mut observed_all: BTreeMap<Key, Outcome> = BTreeMap::new();
    let mut preempt_outcomes: BTreeSet<String> = BTreeSet::new();
    let (mut preempt_runs, mut preemptions, mut preempt_at_next_hook) = (0u64, 0u64, 0u64);
    let mut r = 0usize;
    while let Some(spec) = next_run(r) {
        r += 1;
        if let Err(e) = validate(&spec) {
            harness_error = Some(format!("invalid run spec: {}", e));
            break;
        }
        let res = execute_run(&spec);
        let mut explicit = spec.clone();
        explicit.sched = SchedSpec::List {
            decisions: res.decisions.clone(),
        };
        if res.deadlock {
            harness_error = Some(format!("baton scheduler deadlock (no runnable client): {}", res.sched_state));
            executed.push(explicit);
            break;
        }
        if spec.preempts.is_empty() {
            log_hash = events_digest(log_hash, &res.events, &res.decisions);
        } else {
            // where exactly a preemption lands is a matter of instruction counts; what the determinism comparison
            // must see is what the builds returned, independent of how many runs the sweep needed
            for e in &res.events {
                if let grex_sim::exec::EvKind::Build(o) = &e.kind {
                    preempt_outcomes.insert(format!("{}|{}|{}", workload_fingerprint(&spec), e.client, o.to_json()));
                }
            }
            preempt_runs += 1;
            preemptions += res.preemptions;
            preempt_at_next_hook += res.preempt_at_next_hook;
            if executed.len() > 40 {
                executed.drain(0..executed.len() - 40);
            }
        }
        total_events += res.events.len() as u64;
        total_clients += spec.clients.len() as u64;
        switches += res.switches;
        switches_in_build += res.switches_in_build;
        lock_handovers += res.lock_handovers;
        decisions_total += res.decisions.len() as u64;
        hash_streams += spec.clients.len() as u64;
        for (i, h) in res.site_hits.iter().enumerate() {
            site_hits[i] += h;
        }
        for c in &spec.clients {
            for op in &c.ops {
                *op_kinds.entry(op.kind()).or_insert(0) += 1;
            }
        }
        let builds_before = stats.builds;
        let mut observed = vec![];
        let viols = check_history(&spec, &res.events, &mut |k| oracle.golden(k), &mut stats, &mut observed);
        for (k, o) in observed {
            observed_all.entry(k).or_insert(o);
        }
        let builds_here = stats.builds - builds_before;
        let sched_fp = {
            let mut h = fnv1a(b"sched");
            for d in &res.decisions {
                h = fnv_mix(h, &(*d as u32).to_le_bytes());
            }
            h
        };
        schedule_fps.insert(sched_fp);
        if builds_here >= 2 && (res.switches >= 1 || spec.clients.len() >= 2) {
            nontrivial_fps.push(workload_fingerprint(&spec) ^ sched_fp.rotate_left(1));
        }
        if want_sample && sample.is_none() && builds_here >= 2 {
            sample = Some(json!({
                "run": explicit.to_json(),
                "events": res.events.iter().map(|e| e.to_json()).collect::<Vec<_>>(),
            }));
        }
        executed.push(explicit);
        if let Some(v) = viols.first() {
            violation = Some(v.to_json());
            break;
        }
    }
    // fresh-process audit of every key (replay mode): the in-process golden itself may be contaminated
    if violation.is_none() && harness_error.is_none() && check_fresh_all {
        let mut keys: Vec<(Key, Outcome)> = oracle.keys().map(|(k, o)| (k.clone(), o.clone())).collect();
        keys.extend(observed_all.iter().map(|(k, o)| (k.clone(), o.clone())));
        for (k, o) in keys {
            match fresh_golden(&k, 1) {
                Ok(f) => {
                    if f != o {
                        violation = Some(
                            Violation {
                                class: "inprocess_differs_from_fresh_process".into(),
                                client: 0,
                                op_idx: 0,
                                key: Some(k.clone()),
                                observed: o.short(),
                                expected: f.short(),
                            }
                            .to_json(),
                        );
                        break;
                    }
                }
                Err(e) => {
                    harness_error = Some(format!("fresh golden failed: {}", e));
                    break;
                }
            }
        }
    }
    for o in &preempt_outcomes {
        log_hash = fnv_mix(log_hash, o.as_bytes());
    }
    let keys: Vec<Value> = oracle
        .keys()
        .map(|(k, o)| json!([k.encode(), o.to_json()]))
        .collect();
    let unowned = GETRANDOM_UNOWNED.load(Ordering::SeqCst);
    let js = json!({
        "runs": r,
        "clients": total_clients,
        "events": total_events,
        "builds": stats.builds,
        "log_hash": format!("{:016x}", log_hash),
        "key_digest": format!("{:016x}", GETRANDOM_DIGEST.load(Ordering::SeqCst)),
        "getrandom_calls": GETRANDOM_CALLS.load(Ordering::SeqCst),
        "getrandom_unowned": unowned,
        "clock_reads_simulated": CLOCK_READS_SIMULATED.load(Ordering::SeqCst),
        "clock_jumps_injected": CLOCK_JUMPS.load(Ordering::SeqCst),
        "hash_streams": hash_streams,
        "switches": switches,
        "switches_in_build": switches_in_build,
        "lock_handovers": lock_handovers,
        "preempt_runs": preempt_runs,
        "preemptions": preemptions,
        "preemptions_between_instructions": grex_sim::step::FIRED_BY_COUNT.load(Ordering::SeqCst),
        "preemptions_at_next_hook": preempt_at_next_hook,
        "single_step_traps": grex_sim::step::TRAPS_TOTAL.load(Ordering::SeqCst),
        "single_steps_counted": grex_sim::step::STEPS_COUNTED.load(Ordering::SeqCst),
        "single_step_expired": grex_sim::step::EXPIRED.load(Ordering::SeqCst),
        "critical_sites": CRITICAL_SITES.load(Ordering::SeqCst).count_ones(),
        "decisions": decisions_total,
        "stats": {
            "build_after_build": stats.build_after_build,
            "build_on_clone": stats.build_on_clone,
            "build_after_move": stats.build_after_move,
            "build_after_failed_setter": stats.build_after_failed_setter,
            "build_panics": stats.build_panics,
            "goldens_computed": oracle.computed,
        },
        "op_kinds": op_kinds,
        "site_hits": SITES.iter().zip(site_hits.iter()).map(|(s, h)| (s.to_string(), json!(h))).collect::<serde_json::Map<_, _>>(),
        "schedule_fps": schedule_fps.len(),
        "nontrivial_fps": nontrivial_fps.iter().map(|x| format!("{:016x}", x)).collect::<Vec<_>>(),
        "keys": keys,
        "sample": sample,
        "violation": violation,
        "harness_error": harness_error,
        "executed_runs": if violation.is_some() || harness_error.is_some() { json!(executed.iter().map(|s| s.to_json()).collect::<Vec<_>>()) } else { Value::Null },
    });
    EpisodeOutcome { json: js, violation }
}

/// Every instruction address of a stretch is visited at its first this-many occurrences: quick / thorough.
const PREEMPT_OCC_MAX: u32 = 1;
const PREEMPT_OCC_MAX_THOROUGH: u32 = 2;
/// Upper bound on the positions swept per visit (beyond it: first occurrences only, thinned out evenly).
const PREEMPT_POSITIONS_PER_VISIT: usize = 900;
const PREEMPT_POSITIONS_PER_VISIT_THOROUGH: usize = 2500;
const PREEMPT_SPLIT: u64 = 2;
const PREEMPT_EPISODES: u64 = 36;
const PREEMPT_EPISODES_THOROUGH: u64 = 192;

/// Adaptive generator of the runs of one preemption episode (see episode.rs and step.rs): for each of its pairs a
/// probe run that counts the victim's visits (hook calls and call entries); then for every visit one *trace run* that
/// single-steps the stretch up to the next hook once and records the instruction addresses, and for every position
/// of that stretch (every address at its first `occ_max` occurrences, so that loops are entered but not unrolled
/// without end) one run that parks the victim exactly there by a hardware breakpoint, lets the intruder run its whole
/// history, and resumes the victim.
struct PreemptSweep {
    residue: u64,
    pairs: Vec<PreemptPair>,
    pos: usize,
    seeds: (u64, u64),
    rng: Rng,
    state: u8, // 0 = emit probe(s), 5 = head probe done, 1 = probe done, 2 = emit trace run, 3 = trace done, 4 = positions
    visits: u64,
    intruder_visits: u64,
    visit: u64,
    positions: Vec<u32>,
    pos_idx: usize,
    occ_max: u32,
    per_visit_max: usize,
    skip_visits: u64,
    second_pass: bool,
    parked: u64,
    pass: u8,
    pairs_done: u64,
    visits_swept: u64,
    positions_total: u64,
    stretch_instructions: u64,
    stretches_truncated: u64,
}

impl PreemptSweep {
    fn new(verif_seed: u64, tier: &str, episode: u64, n_eps: u64, occ_max: u32) -> PreemptSweep {
        let all = preempt_pairs(verif_seed, tier);
        // the visits of one pair are dealt out to PREEMPT_SPLIT episodes (a pair is tens of seconds of work)
        let groups = (n_eps.max(1) / PREEMPT_SPLIT).max(1);
        let group = episode / PREEMPT_SPLIT;
        let residue = episode % PREEMPT_SPLIT;
        let pairs: Vec<PreemptPair> = all.into_iter().enumerate().filter(|(i, _)| *i as u64 % groups == group).map(|(_, p)| p).collect();
        PreemptSweep {
            residue,
            pairs,
            pos: 0,
            seeds: (0, 0),
            rng: Rng::new(derive(verif_seed, &[0x5052454D, 2, episode])),
            state: 0,
            visits: 0,
            intruder_visits: 0,
            visit: 0,
            positions: vec![],
            pos_idx: 0,
            occ_max,
            per_visit_max: if tier == "thorough" { PREEMPT_POSITIONS_PER_VISIT_THOROUGH } else { PREEMPT_POSITIONS_PER_VISIT },
            skip_visits: 0,
            second_pass: tier == "thorough",
            parked: 0,
            pass: 0,
            pairs_done: 0,
            visits_swept: 0,
            positions_total: 0,
            stretch_instructions: 0,
            stretches_truncated: 0,
        }
    }

    fn victim_key(&self) -> u64 {
        grex_sim::exec::client_fingerprint(&ClientSpec { hash_seed: self.seeds.0, ops: self.pairs[self.pos].victim.clone() })
    }

    fn next(&mut self, _r: usize) -> Option<RunSpec> {
        loop {
            if self.pos >= self.pairs.len() {
                return None;
            }
            match self.state {
                0 => {
                    self.seeds = (self.rng.next_u64() | 1, self.rng.next_u64() | 1);
                    self.skip_visits = 0;
                    self.pass = 0;
                    self.parked = 0;
                    let pair = &self.pairs[self.pos];
                    if pair.skip_ops > 0 {
                        // first count the visits of the part of the history that is not swept
                        self.state = 5;
                        let head = PreemptPair {
                            victim: pair.victim[..pair.skip_ops].to_vec(),
                            intruder: pair.intruder.clone(),
                            systematic: pair.systematic,
                            core: pair.core,
                            skip_ops: 0,
                            mailboxes: pair.mailboxes,
                            positions_per_visit: pair.positions_per_visit,
                        };
                        return Some(preempt_run(&head, self.seeds, 0, 0, 0));
                    }
                    self.state = 1;
                    return Some(preempt_run(pair, self.seeds, 0, 0, 0));
                }
                5 => {
                    let info = grex_sim::exec::LAST_RUN_INFO.lock().unwrap().clone();
                    // the truncated history ends with the visit of the final drop of the builders, which the full
                    // history makes later
                    self.skip_visits = info.0.first().copied().unwrap_or(1).saturating_sub(1);
                    self.state = 1;
                    return Some(preempt_run(&self.pairs[self.pos], self.seeds, 0, 0, 0));
                }
                1 => {
                    let info = grex_sim::exec::LAST_RUN_INFO.lock().unwrap().clone();
                    self.visits = info.0.first().copied().unwrap_or(0);
                    self.intruder_visits = info.0.get(1).copied().unwrap_or(0);
                    self.visit = self.skip_visits + 1;
                    self.state = 2;
                }
                2 => {
                    if self.visit > self.visits {
                        // second pass for systematic pairs: the intruder is itself parked in the middle of its build
                        if self.pass == 0 && self.second_pass && self.pairs[self.pos].core && self.intruder_visits > 1 {
                            self.pass = 1;
                            self.parked = 1 + self.rng.below(self.intruder_visits);
                            self.visit = self.skip_visits + 1;
                            continue;
                        }
                        self.pairs_done += 1;
                        self.pos += 1;
                        self.state = 0;
                        continue;
                    }
                    if self.visit % PREEMPT_SPLIT != self.residue {
                        self.visit += 1;
                        continue;
                    }
                    let key = (self.victim_key(), self.visit);
                    self.state = 3;
                    if !grex_sim::exec::TRACES.lock().unwrap().contains_key(&key) {
                        return Some(preempt_run_via(&self.pairs[self.pos], self.seeds, self.visit, TRACE_CAPACITY, 0, 2));
                    }
                }
                3 => {
                    let key = (self.victim_key(), self.visit);
                    let trace = grex_sim::exec::TRACES.lock().unwrap().get(&key).cloned();
                    self.positions.clear();
                    self.pos_idx = 0;
                    if let Some(t) = trace {
                        if self.pass == 0 {
                            self.stretch_instructions += t.len() as u64;
                            if t.len() as u32 >= TRACE_CAPACITY {
                                self.stretches_truncated += 1;
                            }
                        }
                        let mut seen: BTreeMap<u32, u32> = BTreeMap::new();
                        for (i, off) in t.iter().enumerate() {
                            let n = seen.entry(*off).or_insert(0);
                            *n += 1;
                            if *n <= self.occ_max {
                                self.positions.push(i as u32 + 1);
                            }
                        }
                        let per_visit_max = match self.pairs[self.pos].positions_per_visit {
                            0 => self.per_visit_max,
                            n => n.min(self.per_visit_max),
                        };
                        if self.positions.len() > per_visit_max {
                            // keep the first occurrence of every address, then thin out evenly
                            let mut first: Vec<u32> = vec![];
                            let mut seen1: BTreeSet<u32> = BTreeSet::new();
                            for (i, off) in t.iter().enumerate() {
                                if seen1.insert(*off) {
                                    first.push(i as u32 + 1);
                                }
                            }
                            self.positions = first;
                            if self.positions.len() > per_visit_max {
                                let n = self.positions.len();
                                let m = per_visit_max;
                                self.positions = (0..m).map(|j| self.positions[j * n / m]).collect();
                            }
                        }
                    }
                    self.positions_total += self.positions.len() as u64;
                    self.state = 4;
                }
                _ => {
                    if self.pos_idx < self.positions.len() {
                        let k = self.positions[self.pos_idx];
                        self.pos_idx += 1;
                        return Some(preempt_run_via(&self.pairs[self.pos], self.seeds, self.visit, k, self.parked, 1));
                    }
                    self.visits_swept += 1;
                    self.visit += 1;
                    self.state = 2;
                }
            }
        }
    }
}

fn mode_worker(args: &[String]) -> i32 {
    // the process environment of this simulated lifetime (variables, CPU set) is chosen from the seed and applied
    // before anything else runs
    let penv = {
        let vs: u64 = arg_value(args, "--verif-seed").and_then(|s| s.parse().ok()).unwrap_or(DEFAULT_SEED);
        let ix: u64 = arg_value(args, "--index").and_then(|s| s.parse().ok()).unwrap_or(0);
        let e = if ix >= SCENARIO_BASE {
            let k = ix - SCENARIO_BASE;
            if (SCENARIO_KINDS..2 * SCENARIO_KINDS).contains(&k) || k == SCENARIO_SYSTEMATIC_ODD_ENV {
                grex_sim::penv::ProcEnv {
                    vars: vec![("LANG".into(), "tr_TR.UTF-8".into()), ("LC_ALL".into(), "tr_TR.UTF-8".into()), ("RAYON_NUM_THREADS".into(), "3".into())],
                    cpus: 3,
                }
            } else {
                grex_sim::penv::ProcEnv::default()
            }
        } else {
            grex_sim::penv::choose(derive(vs, &[0x50454E56, ix]))
        };
        grex_sim::penv::apply(&e);
        e
    };
    process_setup();
    if let Err(e) = seam_selftest() {
        println!("{}", json!({"harness_error": e}));
        return 2;
    }
    let verif_seed: u64 = arg_value(args, "--verif-seed").and_then(|s| s.parse().ok()).unwrap_or(DEFAULT_SEED);
    let tier = arg_value(args, "--tier").unwrap_or_else(|| "quick".into());
    let index: u64 = arg_value(args, "--index").and_then(|s| s.parse().ok()).unwrap_or(0);
    let n_sys: u64 = arg_value(args, "--systematic-episodes").and_then(|s| s.parse().ok()).unwrap_or(0);
    let episode_seed = derive(verif_seed, &[tier_code(&tier), 1, index]);
    let want_sample = has_flag(args, "--sample");
    let out = if index >= PREEMPT_BASE {
        let thorough = tier == "thorough";
        let n_eps: u64 = arg_value(args, "--preempt-episodes").and_then(|s| s.parse().ok()).unwrap_or(if thorough { PREEMPT_EPISODES_THOROUGH } else { PREEMPT_EPISODES });
        let occ_max: u32 = arg_value(args, "--preempt-occ-max").and_then(|s| s.parse().ok()).unwrap_or(if thorough { PREEMPT_OCC_MAX_THOROUGH } else { PREEMPT_OCC_MAX });
        let mut sweep = PreemptSweep::new(verif_seed, &tier, index - PREEMPT_BASE, n_eps, occ_max);
        let out = run_episode(|r| sweep.next(r), want_sample, false);
        let mut out = out;
        out.json["preempt_pairs"] = json!(sweep.pairs_done);
        out.json["preempt_hook_visits_swept"] = json!(sweep.visits_swept);
        out.json["preempt_positions"] = json!(sweep.positions_total);
        out.json["preempt_stretch_instructions"] = json!(sweep.stretch_instructions);
        out.json["preempt_stretches_truncated"] = json!(sweep.stretches_truncated);
        out.json["breakpoints_set"] = json!(grex_sim::step::BREAKPOINTS_SET.load(Ordering::SeqCst));
        out.json["breakpoints_hit"] = json!(grex_sim::step::BREAKPOINTS_HIT.load(Ordering::SeqCst));
        out.json["breakpoints_refused"] = json!(grex_sim::step::BREAKPOINTS_REFUSED.load(Ordering::SeqCst));
        out.json["traces_recorded"] = json!(grex_sim::step::TRACES_RECORDED.load(Ordering::SeqCst));
        out
    } else if index >= SCENARIO_BASE {
        let runs = scenario_runs(index - SCENARIO_BASE, verif_seed);
        let k = index - SCENARIO_BASE;
        if (SCENARIO_MEMORY_LIMITED..SCENARIO_SYSTEMATIC_ODD_ENV).contains(&k) {
            // failing allocations: from here on the address space may grow only by the margin (plus one thread stack)
            let margin = SCENARIO_MEMORY_MARGINS_MB[((k - SCENARIO_MEMORY_LIMITED) as usize) % SCENARIO_MEMORY_MARGINS_MB.len()];
            limit_address_space_to_margin(margin);
        }
        run_episode(|r| runs.get(r).cloned(), want_sample, false)
    } else if index < n_sys {
        // systematic stratum: this episode executes its slice of the systematic runs
        let all = systematic_runs(verif_seed);
        let per = (all.len() as u64 + n_sys - 1) / n_sys;
        let lo = (index * per) as usize;
        let hi = (((index + 1) * per) as usize).min(all.len());
        let slice: Vec<RunSpec> = if lo < hi { all[lo..hi].to_vec() } else { vec![] };
        run_episode(|r| slice.get(r).cloned(), want_sample, false)
    } else {
        let mut rng = Rng::new(episode_seed);
        let params = gen_params(&mut rng, verif_seed, &tier);
        let n = params.n_runs as usize;
        run_episode(
            |r| {
                if r < n {
                    Some(gen_run(&mut rng, &params))
                } else {
                    None
                }
            },
            want_sample,
            false,
        )
    };
    let mut js = out.json;
    js["index"] = json!(index);
    js["process_env"] = penv.to_json();
    js["episode_seed"] = json!(episode_seed.to_string());
    js["systematic"] = json!(index < n_sys);
    println!("{}", js);
    if js["harness_error"].is_string() {
        2
    } else if out.violation.is_some() {
        1
    } else {
        0
    }
}

// ---------------------------------------------------------------------------------------
// cold-start sweep: one fresh process per position
//
// The preemption sweep of the worker episodes warms the library up before it positions anything. A race that exists
// only while a lazily initialised table is filled for the first time in the process needs the opposite: a process in
// which the victim's run IS the first use. For every visit of a cold world one fresh process records the stretch
// twice — cold, then (same process, now warm) again — and reports the part of the cold stretch that the warm one does
// not have: the initialisation code. For every instruction address of that part one more fresh process parks the
// victim there by hardware breakpoint, lets the intruder run, resumes, and judges all builds as usual (goldens are
// computed after the run, and audited in yet another fresh process).
// ---------------------------------------------------------------------------------------

const COLD_POSITIONS_PER_VISIT: usize = 300;

fn cold_spec(pair: usize, verif_seed: u64, visit: u64, steps: u32, via: u8, intruder_stop: u64) -> Option<RunSpec> {
    let pairs = cold_pairs();
    let p = pairs.get(pair)?;
    let mut rng = Rng::new(derive(verif_seed, &[0x434F4C44, pair as u64]));
    let seeds = (rng.next_u64() | 1, rng.next_u64() | 1);
    Some(preempt_run_full(p, seeds, visit, steps, intruder_stop, true, via))
}

fn mode_cold(args: &[String]) -> i32 {
    process_setup();
    if let Err(e) = seam_selftest() {
        println!("{}", json!({"harness_error": e}));
        return 2;
    }
    grex_sim::exec::COLD.store(true, Ordering::SeqCst);
    let verif_seed: u64 = arg_value(args, "--verif-seed").and_then(|s| s.parse().ok()).unwrap_or(DEFAULT_SEED);
    let pair: usize = arg_value(args, "--pair").and_then(|s| s.parse().ok()).unwrap_or(0);
    let visit: u64 = arg_value(args, "--visit").and_then(|s| s.parse().ok()).unwrap_or(0);
    if has_flag(args, "--trace") {
        // visit 0: only count the visits of the victim
        if visit == 0 {
            let spec = match cold_spec(pair, verif_seed, 0, 0, 0, 0) {
                Some(s) => s,
                None => return 2,
            };
            let res = execute_run(&spec);
            println!("{}", json!({"visits": res.visits.first().copied().unwrap_or(0), "intruder_visits": res.visits.get(1).copied().unwrap_or(0)}));
            return 0;
        }
        let spec = match cold_spec(pair, verif_seed, visit, TRACE_CAPACITY, 2, 0) {
            Some(s) => s,
            None => return 2,
        };
        let key = (grex_sim::exec::client_fingerprint(&spec.clients[0]), visit);
        let _ = execute_run(&spec);
        let cold: Vec<u32> = grex_sim::exec::TRACES.lock().unwrap().remove(&key).map(|t| t.to_vec()).unwrap_or_default();
        let _ = execute_run(&spec);
        let warm: Vec<u32> = grex_sim::exec::TRACES.lock().unwrap().remove(&key).map(|t| t.to_vec()).unwrap_or_default();
        let mut p = 0usize;
        while p < cold.len() && p < warm.len() && cold[p] == warm[p] {
            p += 1;
        }
        let mut q = 0usize;
        while q < cold.len() - p && q < warm.len() - p && cold[cold.len() - 1 - q] == warm[warm.len() - 1 - q] {
            q += 1;
        }
        println!("{}", json!({"cold": cold, "warm_len": warm.len(), "segment": [p, cold.len() - q]}));
        return 0;
    }
    // run mode: the recorded cold stretch arrives on stdin
    let position: u32 = arg_value(args, "--position").and_then(|s| s.parse().ok()).unwrap_or(1);
    let mut input = String::new();
    let _ = std::io::stdin().read_to_string(&mut input);
    let trace: Vec<u32> = serde_json::from_str::<Value>(&input)
        .ok()
        .and_then(|v| v.as_array().map(|a| a.iter().filter_map(|x| x.as_u64().map(|x| x as u32)).collect()))
        .unwrap_or_default();
    let intruder_stop: u64 = arg_value(args, "--intruder-stop").and_then(|s| s.parse().ok()).unwrap_or(0);
    let spec = match cold_spec(pair, verif_seed, visit, position, 1, intruder_stop) {
        Some(s) => s,
        None => return 2,
    };
    let key = (grex_sim::exec::client_fingerprint(&spec.clients[0]), visit);
    grex_sim::exec::TRACES.lock().unwrap().insert(key, Arc::new(trace));
    let mut once = Some(spec);
    let out = run_episode(|_| once.take(), false, true);
    let mut js = out.json;
    js["breakpoints_hit"] = json!(grex_sim::step::BREAKPOINTS_HIT.load(Ordering::SeqCst));
    println!("{}", js);
    if js["harness_error"].is_string() {
        2
    } else if out.violation.is_some() {
        1
    } else {
        0
    }
}

fn run_cold_process(args: &[String], stdin_text: Option<String>, timeout_s: u64) -> Result<Value, String> {
    let exe = std::env::current_exe().map_err(|e| e.to_string())?;
    let mut cmd = Command::new(exe);
    cmd.arg("cold").args(args).env_remove("RUST_BACKTRACE").stdin(Stdio::piped()).stdout(Stdio::piped()).stderr(Stdio::null());
    let mut child = cmd.spawn().map_err(|e| e.to_string())?;
    {
        let mut si = child.stdin.take().unwrap();
        if let Some(t) = stdin_text {
            let _ = si.write_all(t.as_bytes());
        }
    }
    let mut so = child.stdout.take().unwrap();
    let reader = std::thread::spawn(move || {
        let mut s = String::new();
        let _ = so.read_to_string(&mut s);
        s
    });
    let start = Instant::now();
    loop {
        match child.try_wait() {
            Ok(Some(_)) => break,
            Ok(None) => {
                if start.elapsed() > Duration::from_secs(timeout_s) {
                    let _ = child.kill();
                    let _ = child.wait();
                    return Err(format!("cold process {:?} exceeded {} s", args, timeout_s));
                }
                std::thread::sleep(Duration::from_millis(1));
            }
            Err(e) => return Err(e.to_string()),
        }
    }
    let out = reader.join().map_err(|_| "reader thread")?;
    serde_json::from_str(out.trim()).map_err(|e| format!("cold process {:?} output unparsable: {} ({} bytes)", args, e, out.len()))
}

/// Returns (statistics, first violation, harness errors).
fn cold_sweep(verif_seed: u64, jobs: usize) -> (Value, Option<Value>, Vec<String>) {
    let n_pairs = cold_pairs().len();
    let errors: Arc<Mutex<Vec<String>>> = Arc::new(Mutex::new(vec![]));
    let violation: Arc<Mutex<Option<Value>>> = Arc::new(Mutex::new(None));
    let (mut traces_made, mut cold_instr, mut init_instr, mut stretches_with_init) = (0u64, 0u64, 0u64, 0u64);
    let positions_run = Arc::new(AtomicUsize::new(0));
    let positions_hit = Arc::new(AtomicUsize::new(0));
    for pair in 0..n_pairs {
        let base = vec!["--verif-seed".to_string(), verif_seed.to_string(), "--pair".to_string(), pair.to_string()];
        let mut a = base.clone();
        a.extend(["--trace".to_string(), "--visit".to_string(), "0".to_string()]);
        let (visits, intruder_visits) = match run_cold_process(&a, None, 120) {
            Ok(v) => (v["visits"].as_u64().unwrap_or(0), v["intruder_visits"].as_u64().unwrap_or(0)),
            Err(e) => {
                errors.lock().unwrap().push(e);
                continue;
            }
        };
        // where the intruder hands the baton back: not at all (it runs to its end in the gap), or at four evenly spaced ones of
        // its own visits (the victim then finishes first and the intruder sees what the victim did meanwhile)
        let stops: Vec<u64> = {
            let mut v = vec![0u64];
            for q in 1..=4u64 {
                let j = intruder_visits * q / 5;
                if j >= 2 && !v.contains(&j) {
                    v.push(j);
                }
            }
            v
        };
        // traces, in parallel
        let traces: Arc<Mutex<BTreeMap<u64, (Vec<u32>, usize, usize)>>> = Arc::new(Mutex::new(BTreeMap::new()));
        let next = Arc::new(AtomicUsize::new(1));
        let mut hs = vec![];
        for _ in 0..jobs {
            let (traces, next, errors, base) = (traces.clone(), next.clone(), errors.clone(), base.clone());
            hs.push(std::thread::spawn(move || loop {
                let v = next.fetch_add(1, Ordering::SeqCst) as u64;
                if v > visits {
                    break;
                }
                let mut a = base.clone();
                a.extend(["--trace".to_string(), "--visit".to_string(), v.to_string()]);
                match run_cold_process(&a, None, 300) {
                    Ok(j) => {
                        let cold: Vec<u32> = j["cold"].as_array().map(|x| x.iter().filter_map(|y| y.as_u64().map(|y| y as u32)).collect()).unwrap_or_default();
                        let s0 = j["segment"][0].as_u64().unwrap_or(0) as usize;
                        let s1 = j["segment"][1].as_u64().unwrap_or(0) as usize;
                        traces.lock().unwrap().insert(v, (cold, s0, s1));
                    }
                    Err(e) => errors.lock().unwrap().push(e),
                }
            }));
        }
        for h in hs {
            let _ = h.join();
        }
        let traces = traces.lock().unwrap().clone();
        // positions: every address of the cold-only part at its first occurrence there
        let mut work: Vec<(u64, u32, Arc<String>, u64)> = vec![];
        for (v, (cold, s0, s1)) in &traces {
            traces_made += 1;
            cold_instr += cold.len() as u64;
            if s1 > s0 {
                stretches_with_init += 1;
                init_instr += (s1 - s0) as u64;
                let mut seen = BTreeSet::new();
                let mut pos: Vec<u32> = (*s0..*s1).filter(|i| seen.insert(cold[*i])).map(|i| i as u32 + 1).collect();
                if pos.len() > COLD_POSITIONS_PER_VISIT {
                    let n = pos.len();
                    pos = (0..COLD_POSITIONS_PER_VISIT).map(|j| pos[j * n / COLD_POSITIONS_PER_VISIT]).collect();
                }
                let text = Arc::new(serde_json::to_string(cold).unwrap());
                for k in pos {
                    for j in &stops {
                        work.push((*v, k, text.clone(), *j));
                    }
                }
            }
        }
        let work = Arc::new(work);
        let next = Arc::new(AtomicUsize::new(0));
        let mut hs = vec![];
        for _ in 0..jobs {
            let (work, next, errors, base, violation, positions_run, positions_hit) =
                (work.clone(), next.clone(), errors.clone(), base.clone(), violation.clone(), positions_run.clone(), positions_hit.clone());
            hs.push(std::thread::spawn(move || loop {
                let i = next.fetch_add(1, Ordering::SeqCst);
                if i >= work.len() || violation.lock().unwrap().is_some() {
                    break;
                }
                let (v, k, text, j) = &work[i];
                let mut a = base.clone();
                a.extend(["--visit".to_string(), v.to_string(), "--position".to_string(), k.to_string(), "--intruder-stop".to_string(), j.to_string()]);
                match run_cold_process(&a, Some(text.to_string()), 300) {
                    Ok(j_out) => {
                        positions_run.fetch_add(1, Ordering::SeqCst);
                        positions_hit.fetch_add(j_out["breakpoints_hit"].as_u64().unwrap_or(0) as usize, Ordering::SeqCst);
                        if j_out["harness_error"].is_string() {
                            errors.lock().unwrap().push(format!("cold run: {}", j_out["harness_error"]));
                        } else if !j_out["violation"].is_null() {
                            let mut g = violation.lock().unwrap();
                            if g.is_none() {
                                *g = Some(json!({"pair": pair, "visit": v, "position": k, "intruder_stop": j, "violation": j_out["violation"], "run": j_out["executed_runs"]}));
                            }
                        }
                    }
                    Err(e) => errors.lock().unwrap().push(e),
                }
            }));
        }
        for h in hs {
            let _ = h.join();
        }
        if violation.lock().unwrap().is_some() {
            break;
        }
    }
    let stats = json!({
        "worlds": n_pairs,
        "stretches_traced_cold_and_warm": traces_made,
        "instructions_in_the_cold_stretches": cold_instr,
        "stretches_with_first_use_code": stretches_with_init,
        "instructions_of_first_use_code": init_instr,
        "positions_each_in_a_fresh_process": positions_run.load(Ordering::SeqCst),
        "of_which_the_breakpoint_was_hit": positions_hit.load(Ordering::SeqCst),
    });
    let v = violation.lock().unwrap().clone();
    let e = errors.lock().unwrap().clone();
    (stats, v, e)
}

// ---------------------------------------------------------------------------------------
// replay
// ---------------------------------------------------------------------------------------

fn load_replay(path: &str) -> Result<(Value, Vec<RunSpec>), String> {
    let text = std::fs::read_to_string(path).map_err(|e| format!("{}: {}", path, e))?;
    let v: Value = serde_json::from_str(&text).map_err(|e| e.to_string())?;
    let runs = v
        .get("runs")
        .and_then(|r| r.as_array())
        .ok_or("replay file has no runs")?
        .iter()
        .map(|r| RunSpec::from_json(r).ok_or_else(|| "bad run spec".to_string()))
        .collect::<Result<Vec<_>, _>>()?;
    Ok((v, runs))
}

fn mode_replay(args: &[String]) -> i32 {
    // re-create the process environment the trace was recorded in (before any thread exists)
    if let Some(p) = args.iter().find(|a| !a.starts_with("--") && a.as_str() != "replay") {
        if let Ok(text) = std::fs::read_to_string(p) {
            if let Ok(v) = serde_json::from_str::<Value>(&text) {
                if v.get("process_env").is_some() {
                    grex_sim::penv::apply(&grex_sim::penv::ProcEnv::from_json(&v["process_env"]));
                }
                if let Some(margin) = v.get("address_space_margin_mb").and_then(|x| x.as_u64()) {
                    // a trace recorded under an address-space limit: one malloc arena (needs a fresh process image),
                    // then the same margin above what is mapped now
                    if std::env::var("MALLOC_ARENA_MAX").as_deref() != Ok("1") {
                        let exe = std::env::current_exe().expect("current_exe");
                        let st = Command::new(exe).args(args).env("MALLOC_ARENA_MAX", "1").status().expect("re-exec for replay");
                        return st.code().unwrap_or(2);
                    }
                    REPLAY_MARGIN_MB.store(margin, Ordering::SeqCst);
                }
            }
        }
    }
    process_setup();
    if let Err(e) = seam_selftest() {
        println!("{}", json!({"harness_error": e}));
        return 2;
    }
    let path = match args.iter().find(|a| !a.starts_with("--") && a.as_str() != "replay") {
        Some(p) => p.clone(),
        None => {
            eprintln!("usage: simhist replay <file>");
            return 2;
        }
    };
    if let Ok(text) = std::fs::read_to_string(&path) {
        if let Ok(v) = serde_json::from_str::<Value>(&text) {
            if v["kind"] == "rerun" {
                let vs: u64 = v["verif_seed"].as_str().and_then(|x| x.parse().ok()).unwrap_or(DEFAULT_SEED);
                let tier = v["tier"].as_str().unwrap_or("quick").to_string();
                let ep = v["episode"].as_u64().unwrap_or(0);
                let n_sys = v["systematic_episodes"].as_u64().unwrap_or(32);
                let mut hashes = vec![];
                for _ in 0..3 {
                    match spawn_worker(vs, &tier, ep, n_sys, false, 600) {
                        Ok(w) => hashes.push(format!("{}", w["log_hash"])),
                        Err(e) => {
                            println!("HARNESS-ERROR {}", e);
                            return 2;
                        }
                    }
                }
                println!("  event-log hashes of three executions: {:?}", hashes);
                if hashes.windows(2).any(|w| w[0] != w[1]) {
                    println!("REPLAY-VIOLATION class=same_execution_twice_differs episode={}", ep);
                    return 1;
                }
                println!("REPLAY-OK no violation reproduced");
                return 0;
            }
            if v["kind"] == "cold" {
                let vs = v["verif_seed"].as_str().unwrap_or("0").to_string();
                let base = vec!["--verif-seed".to_string(), vs, "--pair".to_string(), v["pair"].as_u64().unwrap_or(0).to_string(), "--visit".to_string(), v["visit"].as_u64().unwrap_or(1).to_string()];
                let mut a = base.clone();
                a.push("--trace".to_string());
                let t = match run_cold_process(&a, None, 300) {
                    Ok(t) => t,
                    Err(e) => {
                        println!("HARNESS-ERROR {}", e);
                        return 2;
                    }
                };
                let mut a = base.clone();
                a.extend(["--position".to_string(), v["position"].as_u64().unwrap_or(1).to_string(), "--intruder-stop".to_string(), v["intruder_stop"].as_u64().unwrap_or(0).to_string()]);
                return match run_cold_process(&a, Some(t["cold"].to_string()), 300) {
                    Ok(j) if !j["violation"].is_null() => {
                        println!("REPLAY-VIOLATION class={} {}", j["violation"]["class"].as_str().unwrap_or("?"), j["violation"]);
                        1
                    }
                    Ok(_) => {
                        println!("REPLAY-OK no violation reproduced");
                        0
                    }
                    Err(e) => {
                        println!("HARNESS-ERROR {}", e);
                        2
                    }
                };
            }
            if v["kind"] == "hashsweep" {
                let key = match v["key"].as_str().and_then(Key::decode) {
                    Some(k) => k,
                    None => {
                        println!("HARNESS-ERROR bad key in replay file");
                        return 2;
                    }
                };
                let seeds: Vec<u64> = v["hash_seeds"].as_array().map(|a| a.iter().filter_map(|x| x.as_str().and_then(|s| s.parse().ok())).collect()).unwrap_or_default();
                let outs: Vec<Outcome> = seeds.iter().map(|s| fresh_golden(&key, *s).unwrap_or(Outcome::Panic("<golden-one failed>".into()))).collect();
                for (sd, o) in seeds.iter().zip(outs.iter()) {
                    println!("  hash seed {} -> {}", sd, o.short());
                }
                if outs.windows(2).any(|w| w[0] != w[1]) {
                    println!("REPLAY-VIOLATION class=hash_seed_dependence key={}", key.encode());
                    return 1;
                }
                println!("REPLAY-OK no violation reproduced");
                return 0;
            }
        }
    }
    let (_, runs) = match load_replay(&path) {
        Ok(x) => x,
        Err(e) => {
            println!("{}", json!({"harness_error": e}));
            return 2;
        }
    };
    for r in &runs {
        if let Err(e) = validate(r) {
            println!("{}", json!({"harness_error": format!("invalid spec: {}", e), "invalid": true}));
            return 3;
        }
    }
    let m = REPLAY_MARGIN_MB.load(Ordering::SeqCst);
    if m > 0 {
        limit_address_space_to_margin(m);
    }
    let out = run_episode(|r| runs.get(r).cloned(), has_flag(args, "--events"), true);
    let js = out.json;
    if has_flag(args, "--json") {
        println!("{}", js);
    }
    if js["harness_error"].is_string() {
        println!("HARNESS-ERROR {}", js["harness_error"]);
        return 2;
    }
    match &js["violation"] {
        Value::Null => {
            println!("REPLAY-OK no violation reproduced");
            0
        }
        v => {
            println!("REPLAY-VIOLATION class={} {}", v["class"].as_str().unwrap_or("?"), v);
            1
        }
    }
}

// ---------------------------------------------------------------------------------------
// minimiser
// ---------------------------------------------------------------------------------------

struct Minimiser {
    class: String,
    tmp: String,
    attempts: usize,
    budget: usize,
    meta: Value,
}

impl Minimiser {
    fn write(&self, runs: &[RunSpec], path: &str) {
        let mut v = self.meta.clone();
        v["runs"] = json!(runs.iter().map(|r| r.to_json()).collect::<Vec<_>>());
        std::fs::write(path, serde_json::to_string_pretty(&v).unwrap()).expect("write replay");
    }

    /// true iff the candidate still shows the same violation class in a fresh process
    fn still_fails(&mut self, runs: &[RunSpec]) -> bool {
        if self.attempts >= self.budget {
            return false;
        }
        if runs.is_empty() || runs.iter().any(|r| validate(r).is_err()) {
            return false;
        }
        self.attempts += 1;
        self.write(runs, &self.tmp.clone());
        let exe = std::env::current_exe().unwrap();
        let mut child = match Command::new(exe)
            .arg("replay")
            .arg(&self.tmp)
            .env_remove("RUST_BACKTRACE")
            .stdout(Stdio::piped())
            .stderr(Stdio::null())
            .spawn()
        {
            Ok(c) => c,
            Err(_) => return false,
        };
        let start = Instant::now();
        loop {
            match child.try_wait() {
                Ok(Some(_)) => break,
                Ok(None) => {
                    if start.elapsed() > Duration::from_secs(60) {
                        let _ = child.kill();
                        let _ = child.wait();
                        return false;
                    }
                    std::thread::sleep(Duration::from_millis(2));
                }
                Err(_) => return false,
            }
        }
        let mut out = String::new();
        if let Some(mut so) = child.stdout.take() {
            let _ = so.read_to_string(&mut out);
        }
        out.contains(&format!("REPLAY-VIOLATION class={}", self.class))
    }
}

fn minimise(runs: Vec<RunSpec>, class: &str, meta: Value, tmp: &str, budget: usize) -> (Vec<RunSpec>, usize) {
    let mut m = Minimiser {
        class: class.to_string(),
        tmp: tmp.to_string(),
        attempts: 0,
        budget,
        meta,
    };
    let mut cur = runs;
    // 1. only the last run?
    if cur.len() > 1 {
        let last = vec![cur.last().unwrap().clone()];
        if m.still_fails(&last) {
            cur = last;
        } else {
            // drop earlier runs in halves, then singly
            let mut chunk = (cur.len() - 1) / 2;
            while chunk >= 1 {
                let mut i = 0;
                while i + chunk < cur.len() {
                    let mut cand = cur.clone();
                    cand.drain(i..i + chunk);
                    if m.still_fails(&cand) {
                        cur = cand;
                    } else {
                        i += chunk;
                    }
                }
                if chunk == 1 {
                    break;
                }
                chunk /= 2;
            }
        }
    }
    // work on the last run from here on
    let mut progress = true;
    while progress && m.attempts < m.budget {
        progress = false;
        let li = cur.len() - 1;
        // 2. drop clients
        let mut ci = 0;
        while ci < cur[li].clients.len() && cur[li].clients.len() > 1 {
            let mut cand = cur.clone();
            cand[li].clients.remove(ci);
            // renumbering clients invalidates an explicit schedule: fall back to the sequential default
            cand[li].sched = SchedSpec::List { decisions: vec![] };
            if m.still_fails(&cand) {
                cur = cand;
                progress = true;
            } else {
                // keep the schedule, map client ids above ci down by one
                let mut cand2 = cur.clone();
                cand2[li].clients.remove(ci);
                if let SchedSpec::List { decisions } = &cur[li].sched {
                    cand2[li].sched = SchedSpec::List {
                        decisions: decisions
                            .iter()
                            .filter(|d| **d != ci)
                            .map(|d| if *d > ci { d - 1 } else { *d })
                            .collect(),
                    };
                }
                if m.still_fails(&cand2) {
                    cur = cand2;
                    progress = true;
                } else {
                    ci += 1;
                }
            }
        }
        // 3. drop operations (from the end of each client)
        for ci in 0..cur[li].clients.len() {
            let mut oi = cur[li].clients[ci].ops.len();
            while oi > 0 {
                oi -= 1;
                if cur[li].clients[ci].ops.len() <= 1 {
                    break;
                }
                let mut cand = cur.clone();
                cand[li].clients[ci].ops.remove(oi);
                if m.still_fails(&cand) {
                    cur = cand;
                    progress = true;
                }
            }
        }
        // 4. shrink test cases
        for ci in 0..cur[li].clients.len() {
            for oi in 0..cur[li].clients[ci].ops.len() {
                if let Op::New { slot, cases } = cur[li].clients[ci].ops[oi].clone() {
                    let mut cases = cases;
                    let mut k = cases.len();
                    while k > 0 && cases.len() > 1 {
                        k -= 1;
                        let mut c2 = cases.clone();
                        c2.remove(k);
                        let mut cand = cur.clone();
                        cand[li].clients[ci].ops[oi] = Op::New { slot, cases: c2.clone() };
                        if m.still_fails(&cand) {
                            cur = cand;
                            cases = c2;
                            progress = true;
                        }
                    }
                    for k in 0..cases.len() {
                        let chars: Vec<char> = cases[k].chars().collect();
                        let mut pos = chars.len();
                        let mut cur_chars = chars;
                        while pos > 0 {
                            pos -= 1;
                            let mut c3 = cur_chars.clone();
                            c3.remove(pos);
                            let mut c2 = cases.clone();
                            c2[k] = c3.iter().collect();
                            let mut cand = cur.clone();
                            cand[li].clients[ci].ops[oi] = Op::New { slot, cases: c2.clone() };
                            if m.still_fails(&cand) {
                                cur = cand;
                                cases = c2;
                                cur_chars = c3;
                                progress = true;
                            }
                        }
                    }
                }
            }
        }
        // 5. schedule: sequential, else drop decisions from the end
        if let SchedSpec::List { decisions } = cur[li].sched.clone() {
            if !decisions.is_empty() {
                let mut cand = cur.clone();
                cand[li].sched = SchedSpec::List { decisions: vec![] };
                if m.still_fails(&cand) {
                    cur = cand;
                    progress = true;
                } else {
                    let mut d = decisions;
                    let mut i = d.len();
                    let mut tries = 0;
                    while i > 0 && tries < 60 {
                        i -= 1;
                        tries += 1;
                        let mut d2 = d.clone();
                        d2.remove(i);
                        let mut cand = cur.clone();
                        cand[li].sched = SchedSpec::List { decisions: d2.clone() };
                        if m.still_fails(&cand) {
                            cur = cand;
                            d = d2;
                            progress = true;
                        }
                    }
                }
            }
        }
        // 6. in-build sites off
        if !cur[li].sites.is_empty() {
            let mut cand = cur.clone();
            cand[li].sites = vec![];
            if m.still_fails(&cand) {
                cur = cand;
                progress = true;
            }
        }
    }
    (cur, m.attempts)
}

fn mode_minimise(args: &[String]) -> i32 {
    let files: Vec<&String> = args.iter().filter(|a| !a.starts_with("--") && a.as_str() != "minimise").collect();
    if files.len() < 2 {
        eprintln!("usage: simhist minimise <in> <out>");
        return 2;
    }
    let (meta, runs) = match load_replay(files[0]) {
        Ok(x) => x,
        Err(e) => {
            eprintln!("{}", e);
            return 2;
        }
    };
    let class = meta["violation"]["class"].as_str().unwrap_or("build_differs_from_golden").to_string();
    let tmp = format!("{}.tmp", files[1]);
    let mut meta2 = meta.clone();
    meta2.as_object_mut().unwrap().remove("runs");
    let (min, attempts) = minimise(runs, &class, meta2.clone(), &tmp, 400);
    let m = Minimiser {
        class,
        tmp: tmp.clone(),
        attempts: 0,
        budget: 0,
        meta: meta2,
    };
    m.write(&min, files[1]);
    let _ = std::fs::remove_file(&tmp);
    println!("minimised with {} replays", attempts);
    0
}

// ---------------------------------------------------------------------------------------
// driver
// ---------------------------------------------------------------------------------------

// ---------------------------------------------------------------------------------------
// systematic hash-seed sweep: small worlds enumerated completely, every key under K hash-key streams
// ---------------------------------------------------------------------------------------

fn subsets(items: &[String], min: usize, max: usize) -> Vec<Vec<String>> {
    let n = items.len();
    let mut out = vec![];
    fn rec(items: &[String], start: usize, cur: &mut Vec<String>, min: usize, max: usize, out: &mut Vec<Vec<String>>) {
        if cur.len() >= min {
            out.push(cur.clone());
        }
        if cur.len() == max {
            return;
        }
        for i in start..items.len() {
            cur.push(items[i].clone());
            rec(items, i + 1, cur, min, max, out);
            cur.pop();
        }
    }
    let _ = n;
    rec(items, 0, &mut vec![], min, max, &mut out);
    out
}

fn words_over(alpha: &[&str], max_len: usize) -> Vec<String> {
    let mut out: Vec<String> = vec![];
    let mut layer: Vec<String> = vec![String::new()];
    for _ in 0..max_len {
        let mut next = vec![];
        for w in &layer {
            for a in alpha {
                next.push(format!("{}{}", w, a));
            }
        }
        out.extend(next.iter().cloned());
        layer = next;
    }
    out
}

fn cfg_with(f: impl Fn(&mut Cfg)) -> Cfg {
    let mut c = Cfg::default();
    f(&mut c);
    c
}

/// The keys of the sweep: (world name, keys).
fn hashsweep_keys(tier: &str) -> Vec<(&'static str, Vec<Key>)> {
    let mut worlds = vec![];
    // W2: head x digit x tail grids: every subset, class conversion on (the latin squares live here)
    let mut grid = vec![];
    for h in ["a", "b"] {
        for m in ["1", "2"] {
            for t in ["xx", "yy"] {
                grid.push(format!("{}{}{}", h, m, t));
            }
        }
    }
    let cfgs2 = vec![
        cfg_with(|c| c.digits = true),
        cfg_with(|c| {
            c.digits = true;
            c.repetitions = true
        }),
        cfg_with(|c| c.words = true),
        cfg_with(|c| c.non_digits = true),
        cfg_with(|c| {
            c.digits = true;
            c.no_start = true;
            c.no_end = true
        }),
    ];
    let mut k2 = vec![];
    for set in subsets(&grid, 2, 8) {
        for c in &cfgs2 {
            k2.push(Key { set: set.iter().cloned().collect(), cfg: c.clone() });
        }
    }
    worlds.push(("grid{a,b}x{1,2}x{xx,yy}: all subsets x 5 class configurations", k2));
    // W1: all words over {a,b} up to length 3, sets of up to 3 (quick) / 4 (thorough)
    let w = words_over(&["a", "b"], 3);
    let cfgs1 = vec![
        Cfg::default(),
        cfg_with(|c| c.repetitions = true),
        cfg_with(|c| {
            c.repetitions = true;
            c.min_len = 2
        }),
        cfg_with(|c| {
            c.no_start = true;
            c.no_end = true
        }),
        cfg_with(|c| {
            c.repetitions = true;
            c.no_start = true;
            c.no_end = true
        }),
    ];
    let mut k1 = vec![];
    for set in subsets(&w, 1, if tier == "thorough" { 4 } else { 3 }) {
        for c in &cfgs1 {
            k1.push(Key { set: set.iter().cloned().collect(), cfg: c.clone() });
        }
    }
    worlds.push(("words over {a,b} up to length 3: all small sets x 5 configurations", k1));
    // W4: long, mostly non-repeating test cases under repetition conversion: candidate sets of tens of thousands
    // of substrings (hash-ordered inside the library). One key per (text, stream pair) so that they run in parallel.
    {
        let mut st = 0x1234_5678_9ABC_DEF0u64;
        let alpha: Vec<char> = "abcdefghijklmnopqrstuvwxyz0123456789".chars().collect();
        let mut k4 = vec![];
        for n in if tier == "thorough" { vec![300usize, 450, 450, 520] } else { vec![300usize, 450] } {
            let mut text = String::new();
            for _ in 0..n {
                text.push(alpha[(splitmix64(&mut st) % alpha.len() as u64) as usize]);
            }
            // a few genuine repetitions inside the noise
            text.push_str("aaa");
            text.insert_str(n / 2, "xyxyxy");
            k4.push(Key { set: [text].into_iter().collect(), cfg: cfg_with(|c| c.repetitions = true) });
        }
        worlds.push(("long mostly non-repeating texts, repetition conversion", k4));
    }
    if tier == "thorough" {
        // W3: all 4-element sets of words over {a,b} up to length 4, repetition conversion
        let w4 = words_over(&["a", "b"], 4);
        let c = cfg_with(|c| c.repetitions = true);
        let k3 = subsets(&w4, 4, 4)
            .into_iter()
            .map(|set| Key { set: set.into_iter().collect(), cfg: c.clone() })
            .collect();
        worlds.push(("words over {a,b} up to length 4: all 4-element sets, repetition conversion", k3));
    }
    worlds
}

fn build_on_fresh_thread(key: &Key, hash_seed: u64) -> Outcome {
    let k = key.clone();
    std::thread::Builder::new()
        .stack_size(8 << 20)
        .spawn(move || {
            set_hash_stream(hash_seed);
            k.golden()
        })
        .map(|h| h.join().unwrap_or(Outcome::Panic("<thread died>".into())))
        .unwrap_or(Outcome::Panic("<spawn failed>".into()))
}

/// Every key of every world is built under `streams` different hash-key streams (a fresh thread each, so
/// that std draws fresh keys); all outcomes of a key must be equal. Returns (builds, keys, first violation).
fn hash_sweep(tier: &str, verif_seed: u64, jobs: usize) -> (u64, u64, Vec<Value>, Option<Value>) {
    let streams: u64 = if tier == "thorough" { 6 } else { 4 };
    let worlds = hashsweep_keys(tier);
    let mut world_stats = vec![];
    let mut builds = 0u64;
    let mut nkeys = 0u64;
    let mut first: Option<Value> = None;
    for (name, keys) in worlds {
        let keys = Arc::new(keys);
        let next = Arc::new(AtomicUsize::new(0));
        let viol: Arc<Mutex<Vec<(usize, Value)>>> = Arc::new(Mutex::new(vec![]));
        let mut hs = vec![];
        for _ in 0..jobs {
            let (keys, next, viol) = (keys.clone(), next.clone(), viol.clone());
            hs.push(std::thread::spawn(move || loop {
                let i = next.fetch_add(1, Ordering::SeqCst);
                if i >= keys.len() {
                    break;
                }
                let key = &keys[i];
                let s0 = derive(verif_seed, &[0x4853, i as u64, 0]);
                let base = build_on_fresh_thread(key, s0);
                for j in 1..streams {
                    let sj = derive(verif_seed, &[0x4853, i as u64, j]);
                    let o = build_on_fresh_thread(key, sj);
                    if o != base {
                        viol.lock().unwrap().push((
                            i,
                            json!({"class": "hash_seed_dependence", "key": key.encode(), "hash_seeds": [s0.to_string(), sj.to_string()],
                                   "observed": o.to_json(), "expected": base.to_json()}),
                        ));
                        break;
                    }
                }
            }));
        }
        for h in hs {
            let _ = h.join();
        }
        builds += keys.len() as u64 * streams;
        nkeys += keys.len() as u64;
        let mut v = viol.lock().unwrap().clone();
        v.sort_by_key(|(i, _)| *i);
        world_stats.push(json!({"world": name, "keys": keys.len(), "hash_streams_per_key": streams, "violations": v.len()}));
        if first.is_none() {
            first = v.first().map(|(_, x)| x.clone());
        }
    }
    (builds, nkeys, world_stats, first)
}

fn spawn_worker(verif_seed: u64, tier: &str, index: u64, n_sys: u64, sample: bool, timeout_s: u64) -> Result<Value, String> {
    let exe = std::env::current_exe().map_err(|e| e.to_string())?;
    let mut cmd = Command::new(exe);
    cmd.arg("worker")
        .arg("--verif-seed")
        .arg(verif_seed.to_string())
        .arg("--tier")
        .arg(tier)
        .arg("--index")
        .arg(index.to_string())
        .arg("--systematic-episodes")
        .arg(n_sys.to_string())
        .env_remove("RUST_BACKTRACE")
        .stdin(Stdio::null())
        .stdout(Stdio::piped())
        .stderr(Stdio::null());
    if sample {
        cmd.arg("--sample");
    }
    if (SCENARIO_BASE + SCENARIO_MEMORY_LIMITED..SCENARIO_BASE + SCENARIO_SYSTEMATIC_ODD_ENV).contains(&index) {
        // one malloc arena, so that a new thread does not reserve 64 MiB of address space of its own
        cmd.env("MALLOC_ARENA_MAX", "1");
    }
    let mut child = cmd.spawn().map_err(|e| e.to_string())?;
    // read stdout on a thread so a large output cannot block the child
    let mut so = child.stdout.take().unwrap();
    let reader = std::thread::spawn(move || {
        let mut s = String::new();
        let _ = so.read_to_string(&mut s);
        s
    });
    let start = Instant::now();
    loop {
        match child.try_wait() {
            Ok(Some(_)) => break,
            Ok(None) => {
                if start.elapsed() > Duration::from_secs(timeout_s) {
                    let _ = child.kill();
                    let _ = child.wait();
                    return Err(format!("worker for episode {} exceeded {} s", index, timeout_s));
                }
                std::thread::sleep(Duration::from_millis(1));
            }
            Err(e) => return Err(e.to_string()),
        }
    }
    let out = reader.join().map_err(|_| "reader thread")?;
    serde_json::from_str(out.trim()).map_err(|e| format!("worker {} output unparsable: {} ({} bytes)", index, e, out.len()))
}

fn mode_run(args: &[String]) -> i32 {
    let t0 = Instant::now();
    let tier = arg_value(args, "--tier").unwrap_or_else(|| "quick".into());
    let verif_seed: u64 = arg_value(args, "--seed").and_then(|s| s.parse().ok()).unwrap_or(DEFAULT_SEED);
    let evidence_path = arg_value(args, "--evidence");
    let replay_dir = arg_value(args, "--replay-dir").unwrap_or_else(|| "/verif/replays".into());
    let jobs: usize = arg_value(args, "--jobs").and_then(|s| s.parse().ok()).unwrap_or(16);
    let default_eps = if tier == "thorough" { 24000 } else { 700 };
    let episodes: u64 = arg_value(args, "--episodes").and_then(|s| s.parse().ok()).unwrap_or(default_eps);
    let n_sys: u64 = arg_value(args, "--systematic-episodes").and_then(|s| s.parse().ok()).unwrap_or(32.min(episodes));
    let double_every: u64 = arg_value(args, "--double-every").and_then(|s| s.parse().ok()).unwrap_or(50);
    let audit_pct: u64 = arg_value(args, "--audit-pct")
        .and_then(|s| s.parse().ok())
        .unwrap_or(if tier == "thorough" { 10 } else { 100 });
    let max_wall: u64 = arg_value(args, "--max-wall-s").and_then(|s| s.parse().ok()).unwrap_or(if tier == "thorough" { 2000 } else { 100 });
    println!("simhist: VERIF_SEED={} tier={} episodes={} (systematic {}) jobs={}", verif_seed, tier, episodes, n_sys, jobs);
    if has_flag(args, "--cold-only") {
        // experiments: the cold-start sweep by itself
        let (stats, v, errs) = cold_sweep(verif_seed, jobs);
        println!("simhist: cold-start sweep {} violation {:?} errors {:?}", stats, v.as_ref().map(|x| x["violation"].clone()), errs);
        return if !errs.is_empty() { 2 } else if v.is_some() { 1 } else { 0 };
    }

    // scenario episodes first (the long ones should not be the last to start), then the numbered episodes
    let n_scen: u64 = if has_flag(args, "--no-scenarios") { 0 } else { SCENARIOS };
    // instruction-granular preemption sweep (x86-64 only; VERIF_NO_PREEMPT=1 or --no-preempt switches it off)
    let n_pre: u64 = if has_flag(args, "--no-preempt") || !cfg!(target_arch = "x86_64") {
        0
    } else if tier == "thorough" {
        PREEMPT_EPISODES_THOROUGH
    } else {
        PREEMPT_EPISODES
    };
    let indices: Arc<Vec<u64>> = Arc::new(
        (0..n_scen)
            .map(|k| SCENARIO_BASE + k)
            .chain((0..n_pre).map(|k| PREEMPT_BASE + k))
            .chain(0..episodes)
            .collect(),
    );
    let next = Arc::new(AtomicUsize::new(0));
    let results: Arc<Mutex<BTreeMap<u64, Value>>> = Arc::new(Mutex::new(BTreeMap::new()));
    let doubles: Arc<Mutex<Vec<(u64, String, String)>>> = Arc::new(Mutex::new(vec![]));
    let errors: Arc<Mutex<Vec<String>>> = Arc::new(Mutex::new(vec![]));
    let stop = Arc::new(std::sync::atomic::AtomicBool::new(false));
    let mem_limited_not_judged = Arc::new(AtomicUsize::new(0));
    let mut handles = vec![];
    for _ in 0..jobs {
        let next = next.clone();
        let results = results.clone();
        let doubles = doubles.clone();
        let errors = errors.clone();
        let stop = stop.clone();
        let mem_limited_not_judged = mem_limited_not_judged.clone();
        let tier = tier.clone();
        let indices = indices.clone();
        handles.push(std::thread::spawn(move || loop {
            let pos = next.fetch_add(1, Ordering::SeqCst);
            if pos >= indices.len() || stop.load(Ordering::SeqCst) {
                break;
            }
            let i = indices[pos];
            if t0.elapsed().as_secs() > max_wall {
                // wall-clock cap per batch: stop handing out new episodes (recorded in the evidence)
                stop.store(true, Ordering::SeqCst);
                break;
            }
            let sample = i >= n_sys && i < n_sys + 3;
            // generous: a verdict never depends on wall-clock time, and the machine may be busy with other work
            let timeout_first = if i >= SCENARIO_BASE { 600 } else { 150 };
            let mut res = spawn_worker(verif_seed, &tier, i, n_sys, sample, timeout_first);
            if res.is_err() {
                res = spawn_worker(verif_seed, &tier, i, n_sys, sample, 3 * timeout_first);
            }
            if res.is_err() && (SCENARIO_BASE + SCENARIO_MEMORY_LIMITED..SCENARIO_BASE + SCENARIO_SYSTEMATIC_ODD_ENV).contains(&i) {
                // allocation failure aborts the process; running out of the (deliberately small) address space is
                // not a verdict about the property: the episode is not judged
                mem_limited_not_judged.fetch_add(1, Ordering::SeqCst);
                continue;
            }
            match res {
                Ok(v) => {
                    if double_every > 0 && ((i % double_every == 0 && i < SCENARIO_BASE + SCENARIO_MEMORY_LIMITED) || i == PREEMPT_BASE) {
                        match spawn_worker(verif_seed, &tier, i, n_sys, sample, 1800) {
                            Ok(v2) => {
                                // a run in which the scheduler had to break a lock held across a switch point is
                                // timing-dependent by construction (only possible with such a lock in the code
                                // under test): it is exempt from the determinism comparison
                                let exempt = v["lock_handovers"].as_u64().unwrap_or(0) > 0 || v2["lock_handovers"].as_u64().unwrap_or(0) > 0;
                                if !exempt {
                                    // a preemption episode is compared by what its builds returned only: how many
                                    // runs its adaptive sweep needs (and so how many hash keys are served) follows
                                    // instruction counts, which alignment-dependent routines may shift by a few
                                    let kd = |w: &Value| if i >= PREEMPT_BASE { "-".to_string() } else { w["key_digest"].to_string() };
                                    doubles.lock().unwrap().push((i, format!("{}/{}", v["log_hash"], kd(&v)), format!("{}/{}", v2["log_hash"], kd(&v2))))
                                }
                            }
                            Err(e) => errors.lock().unwrap().push(e),
                        }
                    }
                    results.lock().unwrap().insert(i, v);
                }
                Err(e) => errors.lock().unwrap().push(e),
            }
        }));
    }
    for h in handles {
        let _ = h.join();
    }
    let results = results.lock().unwrap().clone();
    let errors = errors.lock().unwrap().clone();
    if !errors.is_empty() {
        for e in &errors {
            println!("HARNESS-ERROR {}", e);
        }
        return 2;
    }
    for (i, v) in &results {
        if v["harness_error"].is_string() {
            println!("HARNESS-ERROR episode {}: {}", i, v["harness_error"]);
            return 2;
        }
        // hash keys served to a thread the simulator did not label (the code under test started a thread of its
        // own): such threads get a fixed stream, so runs stay repeatable; reported in the evidence, not an error
    }
    // An episode executed twice from the same seed: every choice the simulator makes (workload, hash keys, schedule
    // decisions) is a pure function of the seed — 10^4s of double runs on the unchanged tree never differed — so when
    // the hash keys served are identical and the event logs still differ, the code under test behaved differently in
    // two executions with identical inputs, histories, schedules and hash seeds: that is C10 failing, not the harness.
    // (If the key streams themselves differ the harness is at fault.)
    let doubles = doubles.lock().unwrap().clone();
    let mut rerun_violation: Option<(u64, String, String)> = None;
    for (i, a, b) in &doubles {
        if a != b {
            let (la, ka) = a.split_once('/').unwrap_or((a, ""));
            let (lb, kb) = b.split_once('/').unwrap_or((b, ""));
            if ka != kb {
                println!("HARNESS-ERROR episode {} is not deterministic (hash-key streams differ): {} vs {}", i, a, b);
                return 2;
            }
            if rerun_violation.is_none() {
                rerun_violation = Some((*i, la.to_string(), lb.to_string()));
            }
        }
    }

    // ---- aggregate -------------------------------------------------------------
    let mut agg: BTreeMap<String, u64> = BTreeMap::new();
    let mut site_hits: BTreeMap<String, u64> = BTreeMap::new();
    let mut op_kinds: BTreeMap<String, u64> = BTreeMap::new();
    let mut nontrivial: BTreeSet<String> = BTreeSet::new();
    let mut samples: Vec<Value> = vec![];
    let mut key_table: BTreeMap<String, (Value, u64)> = BTreeMap::new();
    let mut cross_process_keys = 0u64;
    let mut cross_process_mismatches = 0u64;
    let mut forced_audit: Vec<(String, Value, u64)> = vec![];
    let mut violations: Vec<(u64, Value, Value)> = vec![]; // (episode, violation, executed runs)
    for (i, v) in &results {
        for k in [
            "runs", "clients", "events", "builds", "getrandom_calls", "getrandom_unowned", "clock_reads_simulated", "clock_jumps_injected", "hash_streams", "switches", "switches_in_build", "lock_handovers", "decisions", "schedule_fps",
            "preempt_runs", "preemptions", "preemptions_between_instructions", "preemptions_at_next_hook", "single_step_traps", "single_steps_counted", "single_step_expired", "preempt_pairs", "preempt_hook_visits_swept", "preempt_positions", "preempt_stretch_instructions", "preempt_stretches_truncated", "traces_recorded", "breakpoints_set", "breakpoints_hit", "breakpoints_refused",
        ] {
            *agg.entry(k.to_string()).or_insert(0) += v[k].as_u64().unwrap_or(0);
        }
        if let Some(o) = v["stats"].as_object() {
            for (k, x) in o {
                *agg.entry(k.clone()).or_insert(0) += x.as_u64().unwrap_or(0);
            }
        }
        if let Some(o) = v["site_hits"].as_object() {
            for (k, x) in o {
                *site_hits.entry(k.clone()).or_insert(0) += x.as_u64().unwrap_or(0);
            }
        }
        if let Some(o) = v["op_kinds"].as_object() {
            for (k, x) in o {
                *op_kinds.entry(k.clone()).or_insert(0) += x.as_u64().unwrap_or(0);
            }
        }
        if let Some(a) = v["nontrivial_fps"].as_array() {
            for x in a {
                nontrivial.insert(x.as_str().unwrap_or("").to_string());
            }
        }
        if !v["sample"].is_null() && samples.len() < 3 {
            samples.push(json!({"episode": i, "episode_seed": v["episode_seed"], "sample": v["sample"]}));
        }
        if !v["violation"].is_null() {
            violations.push((*i, v["violation"].clone(), v["executed_runs"].clone()));
        }
        if let Some(a) = v["keys"].as_array() {
            for kv in a {
                let k = kv[0].as_str().unwrap_or("").to_string();
                match key_table.get(&k) {
                    None => {
                        if *i >= SCENARIO_BASE {
                            forced_audit.push((k.clone(), kv[1].clone(), *i));
                        }
                        key_table.insert(k, (kv[1].clone(), *i));
                    }
                    Some((o, _first_ep)) => {
                        cross_process_keys += 1;
                        if *o != kv[1] {
                            // the same key built in two processes with different results: both go to the
                            // fresh-process audit, which decides which process deviated
                            cross_process_mismatches += 1;
                            forced_audit.push((k.clone(), kv[1].clone(), *i));
                        }
                    }
                }
            }
        }
    }

    // ---- fresh-process audit of keys ---------------------------------------------
    let forced_keys: BTreeSet<String> = forced_audit.iter().map(|(k, _, _)| k.clone()).collect();
    let mut audit_keys: Vec<(String, Value, u64)> = key_table
        .iter()
        .filter(|(k, _)| fnv1a(k.as_bytes()) % 100 < audit_pct || forced_keys.contains(*k))
        .map(|(k, (o, ep))| (k.clone(), o.clone(), *ep))
        .collect();
    audit_keys.extend(forced_audit.iter().cloned());
    let audited = Arc::new(AtomicUsize::new(0));
    let audit_viol: Arc<Mutex<Vec<(u64, Value)>>> = Arc::new(Mutex::new(vec![]));
    let audit_err: Arc<Mutex<Vec<String>>> = Arc::new(Mutex::new(vec![]));
    {
        let audit_keys = Arc::new(audit_keys);
        let nexta = Arc::new(AtomicUsize::new(0));
        let mut hs = vec![];
        for _ in 0..jobs {
            let audit_keys = audit_keys.clone();
            let nexta = nexta.clone();
            let audited = audited.clone();
            let audit_viol = audit_viol.clone();
            let audit_err = audit_err.clone();
            hs.push(std::thread::spawn(move || loop {
                let i = nexta.fetch_add(1, Ordering::SeqCst);
                if i >= audit_keys.len() {
                    break;
                }
                if t0.elapsed().as_secs() > max_wall + 120 {
                    break;
                }
                let (k, o, ep) = &audit_keys[i];
                let key = match Key::decode(k) {
                    Some(k) => k,
                    None => continue,
                };
                // two fresh processes, two hash streams
                let hs1 = derive(verif_seed, &[0xA0D17, i as u64, 1]);
                match fresh_golden(&key, hs1) {
                    Ok(f) => {
                        audited.fetch_add(1, Ordering::SeqCst);
                        if Some(f.clone()) != Outcome::from_json(o) {
                            audit_viol.lock().unwrap().push((
                                *ep,
                                json!({"class": "inprocess_differs_from_fresh_process", "key": k, "observed": o, "expected": f.to_json()}),
                            ));
                        }
                    }
                    Err(e) => audit_err.lock().unwrap().push(e),
                }
            }));
        }
        for h in hs {
            let _ = h.join();
        }
    }
    let audit_err = audit_err.lock().unwrap().clone();
    if !audit_err.is_empty() {
        println!("HARNESS-ERROR fresh-process audit: {}", audit_err[0]);
        return 2;
    }
    for (ep, v) in audit_viol.lock().unwrap().iter() {
        violations.push((*ep, v.clone(), Value::Null));
    }
    violations.sort_by_key(|(i, _, _)| *i);

    // ---- systematic hash-seed sweep (in this process: the driver owns its getrandom too) -------------
    set_hash_stream(MAIN_HASH_SEED);
    install_quiet_panic_hook();
    let (sweep_builds, sweep_keys, sweep_worlds, sweep_violation) = if has_flag(args, "--no-hash-sweep") {
        (0, 0, vec![], None)
    } else {
        hash_sweep(&tier, verif_seed, jobs)
    };
    // ---- cold-start sweep ---------------------------------------------------------------------------------
    let (cold_stats, cold_violation, cold_errors) = if has_flag(args, "--no-preempt") || !cfg!(target_arch = "x86_64") {
        (Value::Null, None, vec![])
    } else {
        cold_sweep(verif_seed, jobs)
    };
    if !cold_errors.is_empty() {
        for e in &cold_errors {
            println!("HARNESS-ERROR {}", e);
        }
        return 2;
    }
    let mut cold_line: Option<String> = None;
    if let Some(v) = &cold_violation {
        std::fs::create_dir_all(&replay_dir).ok();
        let path = format!("{}/C10-cold-seed{}.json", replay_dir, verif_seed);
        let file = json!({
            "property": "C10", "engine": "simhist", "kind": "cold", "verif_seed": verif_seed.to_string(),
            "pair": v["pair"], "visit": v["visit"], "position": v["position"], "intruder_stop": v["intruder_stop"], "run": v["run"], "violation": v["violation"],
            "explanation": "fresh process, no warm-up: client 0 is parked by a hardware breakpoint at this position of the stretch after this visit (recorded in another fresh process), client 1 runs its whole history, client 0 resumes",
            "how_to_replay": "/verif/check --replay <this file>",
        });
        std::fs::write(&path, serde_json::to_string_pretty(&file).unwrap()).ok();
        println!("simhist: cold-start sweep violation: {}", v["violation"]);
        cold_line = Some(format!(
            "VIOLATION-JSON {}",
            json!({"property": "C10", "replay": path, "class": format!("cold_start:{}", v["violation"]["class"].as_str().unwrap_or("?")), "signature": format!("cold_start|{}", v["violation"]["key"].as_str().unwrap_or(""))})
        ));
    }
    let mut rerun_line: Option<String> = None;
    if let Some((ep, la, lb)) = &rerun_violation {
        std::fs::create_dir_all(&replay_dir).ok();
        let path = format!("{}/C10-rerun-seed{}-ep{}.json", replay_dir, verif_seed, ep);
        let file = json!({
            "property": "C10", "engine": "simhist", "kind": "rerun", "verif_seed": verif_seed.to_string(), "tier": tier, "episode": ep,
            "systematic_episodes": n_sys,
            "violation": {"class": "same_execution_twice_differs", "log_hashes": [la, lb],
                          "explanation": "the episode was executed twice in fresh processes from the same seed (same workload, hash keys, schedule policy); the recorded events (build results included) differ"},
            "how_to_replay": "/verif/check --replay <this file>",
        });
        std::fs::write(&path, serde_json::to_string_pretty(&file).unwrap()).ok();
        println!("simhist: episode {} executed twice from the same seed gave different event logs ({} vs {})", ep, la, lb);
        rerun_line = Some(format!(
            "VIOLATION-JSON {}",
            json!({"property": "C10", "replay": path, "class": "same_execution_twice_differs", "signature": format!("same_execution_twice_differs|{}", ep)})
        ));
    }
    let mut sweep_line: Option<String> = None;
    if let Some(v) = &sweep_violation {
        std::fs::create_dir_all(&replay_dir).ok();
        let path = format!("{}/C10-hashsweep-seed{}.json", replay_dir, verif_seed);
        let file = json!({
            "property": "C10", "engine": "simhist", "kind": "hashsweep", "key": v["key"], "hash_seeds": v["hash_seeds"],
            "violation": v, "how_to_replay": "/verif/check --replay <this file>",
        });
        std::fs::write(&path, serde_json::to_string_pretty(&file).unwrap()).ok();
        println!("simhist: hash-seed sweep violation: {}", v);
        sweep_line = Some(format!(
            "VIOLATION-JSON {}",
            json!({"property": "C10", "replay": path, "class": "hash_seed_dependence", "signature": format!("hash_seed_dependence|{}", v["key"].as_str().unwrap_or(""))})
        ));
    }

    // ---- violations → minimise → replay file ----------------------------------------
    let mut exit = 0;
    let mut violation_lines = vec![];
    if let Some((ep, viol, runs)) = violations.first() {
        exit = 1;
        std::fs::create_dir_all(&replay_dir).ok();
        let path = format!("{}/C10-simhist-seed{}-ep{}.json", replay_dir, verif_seed, ep);
        // the executed runs of the failing episode (re-run the worker if the violation came from the audit)
        let runs_json = if runs.is_null() {
            // regenerate the episode's explicit runs: ask the worker to dump them
            match dump_episode_runs(verif_seed, &tier, *ep, n_sys) {
                Ok(r) => r,
                Err(e) => {
                    println!("HARNESS-ERROR cannot regenerate episode {}: {}", ep, e);
                    return 2;
                }
            }
        } else {
            runs.clone()
        };
        let meta = json!({
            "property": "C10", "engine": "simhist", "verif_seed": verif_seed.to_string(), "tier": tier, "episode": ep,
            "process_env": results.get(ep).map(|r| r["process_env"].clone()).unwrap_or(Value::Null),
            "address_space_margin_mb": if (SCENARIO_BASE + SCENARIO_MEMORY_LIMITED..SCENARIO_BASE + SCENARIO_SYSTEMATIC_ODD_ENV).contains(ep) {
                json!(SCENARIO_MEMORY_MARGINS_MB[((*ep - SCENARIO_BASE - SCENARIO_MEMORY_LIMITED) as usize) % SCENARIO_MEMORY_MARGINS_MB.len()])
            } else {
                Value::Null
            },
            "violation": viol,
            "how_to_replay": "/verif/check --replay <this file>",
        });
        let mut full = meta.clone();
        full["runs"] = runs_json.clone();
        let unmin = format!("{}.unminimised", path);
        std::fs::write(&unmin, serde_json::to_string_pretty(&full).unwrap()).ok();
        let class = viol["class"].as_str().unwrap_or("?").to_string();
        let runs_parsed: Vec<RunSpec> = runs_json
            .as_array()
            .map(|a| a.iter().filter_map(RunSpec::from_json).collect())
            .unwrap_or_default();
        // does the unminimised file reproduce at all?
        let mut m = Minimiser {
            class: class.clone(),
            tmp: format!("{}.tmp", path),
            attempts: 0,
            budget: 3,
            meta: meta.clone(),
        };
        let reproduces = m.still_fails(&runs_parsed);
        if reproduces {
            // VERIF_NO_MINIMISE=1 (sensitivity matrices only): keep the unminimised trace, save the replays
            let budget = if std::env::var("VERIF_NO_MINIMISE").as_deref() == Ok("1") { 0 } else { 500 };
            let (min, attempts) = minimise(runs_parsed, &class, meta.clone(), &format!("{}.tmp", path), budget);
            let mut mm = Minimiser {
                class: class.clone(),
                tmp: format!("{}.tmp", path),
                attempts: 0,
                budget: 4,
                meta: {
                    let mut x = meta.clone();
                    x["minimised_with_replays"] = json!(attempts);
                    x
                },
            };
            // re-run twice before it is written
            let ok = mm.still_fails(&min) && mm.still_fails(&min);
            mm.write(&min, &path);
            println!("simhist: minimised replay written after {} replays (stable: {})", attempts, ok);
            let _ = std::fs::remove_file(&unmin);
        } else {
            // keep the unminimised trace (e.g. a cross-process mismatch that needs both processes)
            std::fs::rename(&unmin, &path).ok();
            println!("simhist: violation of class {} did not reproduce from the episode trace alone; unminimised trace kept", class);
        }
        let _ = std::fs::remove_file(format!("{}.tmp", path));
        println!("simhist: violation in episode {}: {}", ep, viol);
        violation_lines.push(format!(
            "VIOLATION-JSON {}",
            json!({"property": "C10", "replay": path, "class": class, "signature": format!("{}|{}", class, viol["key"].as_str().unwrap_or("")), "episode": ep})
        ));
    }

    // ---- evidence -------------------------------------------------------------------
    let wall = t0.elapsed().as_secs_f64();
    let n_eps = results.len() as u64;
    let runs_total = *agg.get("runs").unwrap_or(&0);
    let builds_total = *agg.get("builds").unwrap_or(&0);
    let stopped_early = stop.load(Ordering::SeqCst);
    if let Some(p) = evidence_path {
        let ev = json!({
            "engine": "simhist",
            "tier": tier,
            "seed": verif_seed,
            "wall_s": wall,
            "episodes": n_eps,
            "episodes_planned": episodes,
            "stopped_at_wall_cap": stopped_early,
            "systematic_episodes": n_sys,
            "scenario_episodes": n_scen,
            "memory_limited_scenarios": {"margins_mb": SCENARIO_MEMORY_MARGINS_MB.to_vec(), "aborted_on_allocation_failure_and_not_judged": mem_limited_not_judged.load(Ordering::SeqCst)},
            "episodes_in_a_non_canonical_process_environment": results.values().filter(|r| r["process_env"]["vars"].as_array().map(|a| !a.is_empty()).unwrap_or(false) || r["process_env"]["cpus"].as_u64().unwrap_or(0) > 0).count(),
            "episodes_confined_to_fewer_cpus": results.values().filter(|r| r["process_env"]["cpus"].as_u64().unwrap_or(0) > 0).count(),
            "runs": runs_total,
            "build_events_compared": builds_total,
            "runs_per_hour": (runs_total as f64 / wall * 3600.0) as u64,
            "episodes_per_hour": (n_eps as f64 / wall * 3600.0) as u64,
            "simulated_time": "none: grex reads no clock and sets no timer; logical steps are reported instead",
            "logical_steps": {"api_events": agg.get("events"), "scheduler_decisions": agg.get("decisions"), "context_switches": agg.get("switches"), "context_switches_inside_build": agg.get("switches_in_build"), "handovers_forced_by_a_lock_held_across_a_switch_point": agg.get("lock_handovers")},
            "instruction_granular_preemption": {
                "episodes": n_pre,
                "two_client_worlds_swept": agg.get("preempt_pairs"),
                "hook_visits_swept": agg.get("preempt_hook_visits_swept"),
                "positions_per_stretch": format!("every instruction address of the stretch between a visit and the next hook (up to {} instructions), at its first {} occurrences; at most {} positions per visit", TRACE_CAPACITY, if tier == "thorough" { PREEMPT_OCC_MAX_THOROUGH } else { PREEMPT_OCC_MAX }, if tier == "thorough" { PREEMPT_POSITIONS_PER_VISIT_THOROUGH } else { PREEMPT_POSITIONS_PER_VISIT }),
                "positions_swept": agg.get("preempt_positions"),
                "instructions_in_the_stretches_traced": agg.get("preempt_stretch_instructions"),
                "stretches_longer_than_the_trace_capacity": agg.get("preempt_stretches_truncated"),
                "trace_runs": agg.get("traces_recorded"),
                "hardware_breakpoints_set": agg.get("breakpoints_set"),
                "hardware_breakpoints_hit": agg.get("breakpoints_hit"),
                "hardware_breakpoints_refused_by_the_kernel": agg.get("breakpoints_refused"),
                "runs": agg.get("preempt_runs"),
                "preemptions_between_two_instructions": agg.get("preemptions_between_instructions"),
                "preemptions_carried_out_at_the_next_hook_instead": agg.get("preemptions_at_next_hook"),
                "single_step_traps": agg.get("single_step_traps"),
                "instructions_counted_inside_the_executable": agg.get("single_steps_counted"),
                "stepping_given_up_in_a_long_excursion_outside_the_executable": agg.get("single_step_expired"),
            },
            "cold_start_sweep": cold_stats,
            "distinct_schedules_sum_over_episodes": agg.get("schedule_fps"),
            "hash_key_streams": agg.get("hash_streams"),
            "getrandom_calls_served": agg.get("getrandom_calls"),
            "getrandom_calls_from_threads_not_started_by_the_simulator": agg.get("getrandom_unowned"),
            "clock_seam": {"readings_of_the_simulated_clock_by_code_under_test": agg.get("clock_reads_simulated"), "jumps_injected": agg.get("clock_jumps_injected"),
                           "note": "0 readings on the unchanged tree: grex reads no clock; the seam is armed on a quarter of the client threads"},
            "distinct_keys": key_table.len(),
            "keys_seen_in_more_than_one_process": cross_process_keys,
            "cross_process_mismatches": cross_process_mismatches,
            "keys_audited_in_fresh_process": audited.load(Ordering::SeqCst),
            "hash_seed_sweep": {"builds": sweep_builds, "keys": sweep_keys, "worlds": sweep_worlds, "exhaustive_within_worlds": true},
            "determinism_double_runs": doubles.len(),
            "history_probes": {
                "build_after_build": agg.get("build_after_build"),
                "build_on_clone": agg.get("build_on_clone"),
                "builder_moved_between_threads": agg.get("build_after_move"),
                "build_after_failed_setter": agg.get("build_after_failed_setter"),
                "build_panics_consistent_with_golden": agg.get("build_panics"),
            },
            "op_kinds": op_kinds,
            "site_hits": site_hits,
            "distinct_nontrivial": nontrivial.len(),
            "samples": samples,
            "violations": violations.len(),
            "real_code": ["grex (all of build())", "regex", "petgraph", "ndarray", "std collections + SipHash", "std threads / sync"],
            "stubbed": ["source of hash keys (getrandom)", "choice of which caller thread runs (baton, at hook points and API boundaries; between single instructions in the preemption sweep)"],
        });
        std::fs::write(&p, serde_json::to_string_pretty(&ev).unwrap()).ok();
    }
    println!(
        "simhist: {} episodes, {} runs, {} build events compared, {} distinct keys ({} audited in fresh processes), {} switches ({} inside build), {:.1}s",
        n_eps,
        runs_total,
        builds_total,
        key_table.len(),
        audited.load(Ordering::SeqCst),
        agg.get("switches").unwrap_or(&0),
        agg.get("switches_in_build").unwrap_or(&0),
        wall
    );
    // reach probes: a counter stuck at zero means the workload is wrong
    if exit == 0 && tier == "thorough" {
        for k in ["build_after_build", "build_on_clone", "build_after_move", "build_after_failed_setter", "switches_in_build"] {
            if *agg.get(k).unwrap_or(&0) == 0 {
                println!("HARNESS-ERROR reach probe {} stuck at zero", k);
                return 2;
            }
        }
    }
    for l in violation_lines {
        println!("{}", l);
    }
    if let Some(l) = sweep_line {
        println!("{}", l);
        exit = 1;
    }
    if let Some(l) = rerun_line {
        println!("{}", l);
        exit = 1;
    }
    if let Some(l) = cold_line {
        println!("{}", l);
        exit = 1;
    }
    println!("simhist: hash-seed sweep: {} keys, {} builds", sweep_keys, sweep_builds);
    exit
}

fn dump_episode_runs(verif_seed: u64, tier: &str, index: u64, n_sys: u64) -> Result<Value, String> {
    let exe = std::env::current_exe().map_err(|e| e.to_string())?;
    let out = Command::new(exe)
        .arg("dump-episode")
        .arg("--verif-seed")
        .arg(verif_seed.to_string())
        .arg("--tier")
        .arg(tier)
        .arg("--index")
        .arg(index.to_string())
        .arg("--systematic-episodes")
        .arg(n_sys.to_string())
        .env_remove("RUST_BACKTRACE")
        .stderr(Stdio::null())
        .output()
        .map_err(|e| e.to_string())?;
    serde_json::from_slice(&out.stdout).map_err(|e| e.to_string())
}

/// Re-executes an episode and prints its explicit runs (with recorded schedules).
fn mode_dump_episode(args: &[String]) -> i32 {
    process_setup();
    let verif_seed: u64 = arg_value(args, "--verif-seed").and_then(|s| s.parse().ok()).unwrap_or(DEFAULT_SEED);
    let tier = arg_value(args, "--tier").unwrap_or_else(|| "quick".into());
    let index: u64 = arg_value(args, "--index").and_then(|s| s.parse().ok()).unwrap_or(0);
    let n_sys: u64 = arg_value(args, "--systematic-episodes").and_then(|s| s.parse().ok()).unwrap_or(0);
    let episode_seed = derive(verif_seed, &[tier_code(&tier), 1, index]);
    let mut specs: Vec<RunSpec> = vec![];
    if index >= SCENARIO_BASE {
        specs = scenario_runs(index - SCENARIO_BASE, verif_seed);
    } else if index < n_sys {
        let all = systematic_runs(verif_seed);
        let per = (all.len() as u64 + n_sys - 1) / n_sys;
        let lo = (index * per) as usize;
        let hi = (((index + 1) * per) as usize).min(all.len());
        if lo < hi {
            specs = all[lo..hi].to_vec();
        }
    } else {
        let mut rng = Rng::new(episode_seed);
        let params = gen_params(&mut rng, verif_seed, &tier);
        for _ in 0..params.n_runs {
            specs.push(gen_run(&mut rng, &params));
        }
    }
    let mut out = vec![];
    for s in specs {
        let res = execute_run(&s);
        let mut e = s.clone();
        e.sched = SchedSpec::List { decisions: res.decisions };
        out.push(e.to_json());
    }
    println!("{}", Value::Array(out));
    0
}

fn main() {
    let args: Vec<String> = std::env::args().skip(1).collect();
    let code = match args.first().map(|s| s.as_str()) {
        Some("worker") => mode_worker(&args),
        Some("cold") => mode_cold(&args),
        Some("golden-one") => mode_golden_one(&args),
        Some("replay") => mode_replay(&args),
        Some("minimise") => mode_minimise(&args),
        Some("run") => mode_run(&args),
        Some("dump-episode") => mode_dump_episode(&args),
        _ => {
            eprintln!("usage: simhist run|worker|golden-one|replay|minimise|dump-episode ...");
            2
        }
    };
    std::process::exit(code);
}
