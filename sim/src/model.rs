//! Executable reference model of `RegExpBuilder`'s accumulated settings, the canonical
//! ("golden") way to build a key, and the JSON encoding used in replay files.

use grex::RegExpBuilder;
use serde_json::{json, Value};
use std::collections::BTreeSet;
use std::panic::{catch_unwind, AssertUnwindSafe};

#[derive(Clone, Debug, PartialEq, Eq, PartialOrd, Ord, Hash)]
pub struct Cfg {
    pub digits: bool,
    pub non_digits: bool,
    pub spaces: bool,
    pub non_spaces: bool,
    pub words: bool,
    pub non_words: bool,
    pub repetitions: bool,
    pub ignore_case: bool,
    pub capture: bool,
    pub escape: bool,
    pub surrogates: bool,
    pub verbose: bool,
    pub no_start: bool,
    pub no_end: bool,
    pub colorize: bool,
    pub min_rep: u32,
    pub min_len: u32,
}

impl Default for Cfg {
    fn default() -> Self {
        Cfg {
            digits: false,
            non_digits: false,
            spaces: false,
            non_spaces: false,
            words: false,
            non_words: false,
            repetitions: false,
            ignore_case: false,
            capture: false,
            escape: false,
            surrogates: false,
            verbose: false,
            no_start: false,
            no_end: false,
            colorize: false,
            min_rep: 1,
            min_len: 1,
        }
    }
}

#[derive(Clone, Debug, PartialEq, Eq)]
pub enum Setter {
    Digits,
    NonDigits,
    Spaces,
    NonSpaces,
    Words,
    NonWords,
    Repetitions,
    IgnoreCase,
    Capture,
    Escape(bool),
    Verbose,
    NoStart,
    NoEnd,
    NoAnchors,
    Colorize,
    MinRep(u32),
    MinLen(u32),
}

pub const SETTER_KINDS: usize = 17;

impl Setter {
    pub fn kind_index(&self) -> usize {
        match self {
            Setter::Digits => 0,
            Setter::NonDigits => 1,
            Setter::Spaces => 2,
            Setter::NonSpaces => 3,
            Setter::Words => 4,
            Setter::NonWords => 5,
            Setter::Repetitions => 6,
            Setter::IgnoreCase => 7,
            Setter::Capture => 8,
            Setter::Escape(_) => 9,
            Setter::Verbose => 10,
            Setter::NoStart => 11,
            Setter::NoEnd => 12,
            Setter::NoAnchors => 13,
            Setter::Colorize => 14,
            Setter::MinRep(_) => 15,
            Setter::MinLen(_) => 16,
        }
    }

    pub fn name(&self) -> String {
        match self {
            Setter::Digits => "digits".into(),
            Setter::NonDigits => "non_digits".into(),
            Setter::Spaces => "spaces".into(),
            Setter::NonSpaces => "non_spaces".into(),
            Setter::Words => "words".into(),
            Setter::NonWords => "non_words".into(),
            Setter::Repetitions => "repetitions".into(),
            Setter::IgnoreCase => "ignore_case".into(),
            Setter::Capture => "capture".into(),
            Setter::Escape(b) => format!("escape:{}", *b as u8),
            Setter::Verbose => "verbose".into(),
            Setter::NoStart => "no_start".into(),
            Setter::NoEnd => "no_end".into(),
            Setter::NoAnchors => "no_anchors".into(),
            Setter::Colorize => "colorize".into(),
            Setter::MinRep(n) => format!("min_rep:{}", n),
            Setter::MinLen(n) => format!("min_len:{}", n),
        }
    }

    pub fn parse(s: &str) -> Option<Setter> {
        let (head, arg) = match s.split_once(':') {
            Some((h, a)) => (h, Some(a)),
            None => (s, None),
        };
        Some(match head {
            "digits" => Setter::Digits,
            "non_digits" => Setter::NonDigits,
            "spaces" => Setter::Spaces,
            "non_spaces" => Setter::NonSpaces,
            "words" => Setter::Words,
            "non_words" => Setter::NonWords,
            "repetitions" => Setter::Repetitions,
            "ignore_case" => Setter::IgnoreCase,
            "capture" => Setter::Capture,
            "escape" => Setter::Escape(arg? == "1"),
            "verbose" => Setter::Verbose,
            "no_start" => Setter::NoStart,
            "no_end" => Setter::NoEnd,
            "no_anchors" => Setter::NoAnchors,
            "colorize" => Setter::Colorize,
            "min_rep" => Setter::MinRep(arg?.parse().ok()?),
            "min_len" => Setter::MinLen(arg?.parse().ok()?),
            _ => return None,
        })
    }

    /// The documented effect of the setter on the accumulated settings.
    pub fn apply_model(&self, c: &mut Cfg) {
        match self {
            Setter::Digits => c.digits = true,
            Setter::NonDigits => c.non_digits = true,
            Setter::Spaces => c.spaces = true,
            Setter::NonSpaces => c.non_spaces = true,
            Setter::Words => c.words = true,
            Setter::NonWords => c.non_words = true,
            Setter::Repetitions => c.repetitions = true,
            Setter::IgnoreCase => c.ignore_case = true,
            Setter::Capture => c.capture = true,
            Setter::Escape(b) => {
                c.escape = true;
                c.surrogates = *b;
            }
            Setter::Verbose => c.verbose = true,
            Setter::NoStart => c.no_start = true,
            Setter::NoEnd => c.no_end = true,
            Setter::NoAnchors => {
                c.no_start = true;
                c.no_end = true;
            }
            Setter::Colorize => c.colorize = true,
            Setter::MinRep(n) => c.min_rep = *n,
            Setter::MinLen(n) => c.min_len = *n,
        }
    }

    pub fn apply_real(&self, b: &mut RegExpBuilder) {
        match self {
            Setter::Digits => b.with_conversion_of_digits(),
            Setter::NonDigits => b.with_conversion_of_non_digits(),
            Setter::Spaces => b.with_conversion_of_whitespace(),
            Setter::NonSpaces => b.with_conversion_of_non_whitespace(),
            Setter::Words => b.with_conversion_of_words(),
            Setter::NonWords => b.with_conversion_of_non_words(),
            Setter::Repetitions => b.with_conversion_of_repetitions(),
            Setter::IgnoreCase => b.with_case_insensitive_matching(),
            Setter::Capture => b.with_capturing_groups(),
            Setter::Escape(s) => b.with_escaping_of_non_ascii_chars(*s),
            Setter::Verbose => b.with_verbose_mode(),
            Setter::NoStart => b.without_start_anchor(),
            Setter::NoEnd => b.without_end_anchor(),
            Setter::NoAnchors => b.without_anchors(),
            Setter::Colorize => b.with_syntax_highlighting(),
            Setter::MinRep(n) => b.with_minimum_repetitions(*n),
            Setter::MinLen(n) => b.with_minimum_substring_length(*n),
        };
    }
}

impl Cfg {
    /// A fixed-order setter sequence that produces exactly this configuration on a fresh builder.
    pub fn canonical_setters(&self) -> Vec<Setter> {
        let mut v = vec![];
        if self.digits {
            v.push(Setter::Digits);
        }
        if self.non_digits {
            v.push(Setter::NonDigits);
        }
        if self.spaces {
            v.push(Setter::Spaces);
        }
        if self.non_spaces {
            v.push(Setter::NonSpaces);
        }
        if self.words {
            v.push(Setter::Words);
        }
        if self.non_words {
            v.push(Setter::NonWords);
        }
        if self.repetitions {
            v.push(Setter::Repetitions);
        }
        if self.ignore_case {
            v.push(Setter::IgnoreCase);
        }
        if self.capture {
            v.push(Setter::Capture);
        }
        if self.escape {
            v.push(Setter::Escape(self.surrogates));
        }
        if self.verbose {
            v.push(Setter::Verbose);
        }
        if self.no_start {
            v.push(Setter::NoStart);
        }
        if self.no_end {
            v.push(Setter::NoEnd);
        }
        if self.colorize {
            v.push(Setter::Colorize);
        }
        if self.min_rep != 1 {
            v.push(Setter::MinRep(self.min_rep));
        }
        if self.min_len != 1 {
            v.push(Setter::MinLen(self.min_len));
        }
        v
    }

    pub fn encode(&self) -> String {
        let bits = [
            self.digits,
            self.non_digits,
            self.spaces,
            self.non_spaces,
            self.words,
            self.non_words,
            self.repetitions,
            self.ignore_case,
            self.capture,
            self.escape,
            self.escape && self.surrogates,
            self.verbose,
            self.no_start,
            self.no_end,
            self.colorize,
        ];
        let mut s: String = bits.iter().map(|b| if *b { '1' } else { '0' }).collect();
        s.push_str(&format!("/{}/{}", self.min_rep, self.min_len));
        s
    }

    pub fn decode(s: &str) -> Option<Cfg> {
        let mut parts = s.split('/');
        let bits: Vec<bool> = parts.next()?.chars().map(|c| c == '1').collect();
        if bits.len() != 15 {
            return None;
        }
        Some(Cfg {
            digits: bits[0],
            non_digits: bits[1],
            spaces: bits[2],
            non_spaces: bits[3],
            words: bits[4],
            non_words: bits[5],
            repetitions: bits[6],
            ignore_case: bits[7],
            capture: bits[8],
            escape: bits[9],
            surrogates: bits[10],
            verbose: bits[11],
            no_start: bits[12],
            no_end: bits[13],
            colorize: bits[14],
            min_rep: parts.next()?.parse().ok()?,
            min_len: parts.next()?.parse().ok()?,
        })
    }
}

/// What a `build()` call (or a setter) produced: a value, or a panic with its message.
#[derive(Clone, Debug, PartialEq, Eq, PartialOrd, Ord, Hash)]
pub enum Outcome {
    Ok(String),
    Panic(String),
}

impl Outcome {
    pub fn to_json(&self) -> Value {
        match self {
            Outcome::Ok(s) => json!({"ok": s}),
            Outcome::Panic(s) => json!({"panic": s}),
        }
    }
    pub fn from_json(v: &Value) -> Option<Outcome> {
        if let Some(s) = v.get("ok").and_then(|x| x.as_str()) {
            Some(Outcome::Ok(s.to_string()))
        } else {
            v.get("panic")
                .and_then(|x| x.as_str())
                .map(|s| Outcome::Panic(s.to_string()))
        }
    }
    pub fn short(&self) -> String {
        match self {
            Outcome::Ok(s) => format!("ok:{:?}", s),
            Outcome::Panic(s) => format!("panic:{:?}", s),
        }
    }
}

pub fn panic_message(p: Box<dyn std::any::Any + Send>) -> String {
    if let Some(s) = p.downcast_ref::<&str>() {
        s.to_string()
    } else if let Some(s) = p.downcast_ref::<String>() {
        s.clone()
    } else {
        "<non-string panic payload>".to_string()
    }
}

thread_local! {
    static GUARDED: std::cell::Cell<bool> = const { std::cell::Cell::new(false) };
}

/// Runs `f`, turning a panic into a value.
pub fn guarded<T>(f: impl FnOnce() -> T) -> Result<T, String> {
    let prev = GUARDED.with(|g| g.replace(true));
    let r = catch_unwind(AssertUnwindSafe(f)).map_err(panic_message);
    GUARDED.with(|g| g.set(prev));
    r
}

/// Panic hook for harness processes: panics of the code under test inside `guarded` are values and stay
/// silent; a panic anywhere else (harness code, or a thread the code under test started itself) is reported on stderr.
pub fn install_quiet_panic_hook() {
    std::panic::set_hook(Box::new(|info| {
        if !GUARDED.with(|g| g.get()) {
            // either a harness bug, or the code under test panicking on a thread of its own (a worker pool, a scoped
            // helper): in the latter case the panic usually reaches the guarded caller as well and is judged there
            eprintln!("NOTE panic outside a guarded call (harness code, or a thread started by the code under test): {}", info);
        }
    }));
}

/// The key a `build()` result may depend on, by C10: the set of distinct test cases and the settings.
#[derive(Clone, Debug, PartialEq, Eq, PartialOrd, Ord, Hash)]
pub struct Key {
    pub set: BTreeSet<String>,
    pub cfg: Cfg,
}

impl Key {
    pub fn encode(&self) -> String {
        let v = json!({"set": self.set.iter().collect::<Vec<_>>(), "cfg": self.cfg.encode()});
        v.to_string()
    }
    pub fn decode(s: &str) -> Option<Key> {
        let v: Value = serde_json::from_str(s).ok()?;
        let set = v
            .get("set")?
            .as_array()?
            .iter()
            .filter_map(|x| x.as_str().map(|s| s.to_string()))
            .collect();
        let cfg = Cfg::decode(v.get("cfg")?.as_str()?)?;
        Some(Key { set, cfg })
    }

    /// The canonical execution: fresh builder from the sorted set, setters in one fixed order.
    pub fn golden(&self) -> Outcome {
        let cases: Vec<String> = self.set.iter().cloned().collect();
        let setters = self.cfg.canonical_setters();
        match guarded(move || {
            let mut b = RegExpBuilder::from(&cases);
            for s in &setters {
                s.apply_real(&mut b);
            }
            b.build()
        }) {
            Ok(s) => Outcome::Ok(s),
            Err(m) => Outcome::Panic(m),
        }
    }
}
