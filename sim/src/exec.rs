//! Executes one run (a set of client histories) under the baton scheduler with simulator-owned
//! hash keys, records the event history, and checks it against the builder model.

use crate::model::{guarded, Cfg, Key, Outcome, Setter};
use crate::prng::{fnv_mix, splitmix64};
use crate::sched::Sched;
use crate::step;
use crate::workload::{Op, Preempt, RunSpec, SITES};
use grex::RegExpBuilder;
use serde_json::{json, Value};
use std::cell::{Cell, RefCell};
use std::collections::{BTreeMap, BTreeSet};
use std::sync::atomic::{AtomicBool, AtomicU64, Ordering};
use std::sync::{mpsc, Arc, Mutex};

// ---------------------------------------------------------------------------------------
// Hash-key seam: the body of the process-wide `getrandom` (the symbol itself is defined in the
// executable so that std's dlsym finds it).
// ---------------------------------------------------------------------------------------

thread_local! {
    /// (state, is_set): per-thread stream of hash keys
    static HASH_STREAM: Cell<(u64, bool)> = const { Cell::new((0, false)) };
}
pub static GETRANDOM_CALLS: AtomicU64 = AtomicU64::new(0);
pub static GETRANDOM_UNOWNED: AtomicU64 = AtomicU64::new(0);
/// mixes every byte served into one value, so the determinism proof covers the keys themselves
pub static GETRANDOM_DIGEST: AtomicU64 = AtomicU64::new(0xcbf2_9ce4_8422_2325);

pub fn set_hash_stream(seed: u64) {
    HASH_STREAM.with(|c| c.set((seed, true)));
}

/// # Safety
/// `buf` must be valid for `len` bytes.
pub unsafe fn fill_random(buf: *mut u8, len: usize) {
    GETRANDOM_CALLS.fetch_add(1, Ordering::SeqCst);
    let (mut st, set) = HASH_STREAM.with(|c| c.get());
    if !set {
        // a thread the simulator did not label (none is expected): fixed stream, counted
        GETRANDOM_UNOWNED.fetch_add(1, Ordering::SeqCst);
        st = 0x5EED_0000_0000_0001;
    }
    let mut i = 0;
    // Threads the simulator started run one at a time, so the order in which their keys enter the digest is part
    // of the schedule. Threads the code under test started itself run in parallel with one another: each of them is
    // served the same fixed stream, and the order of their calls is not the simulator's to decide, so their bytes
    // stay out of the digest (they are counted instead).
    let mut digest = GETRANDOM_DIGEST.load(Ordering::SeqCst);
    while i < len {
        let v = splitmix64(&mut st).to_le_bytes();
        for b in v.iter() {
            if i < len {
                *buf.add(i) = *b;
                if set {
                    digest = fnv_mix(digest, &[*b]);
                }
                i += 1;
            }
        }
    }
    if set {
        GETRANDOM_DIGEST.store(digest, Ordering::SeqCst);
        HASH_STREAM.with(|c| c.set((st, true)));
    }
}

// ---------------------------------------------------------------------------------------
// Clock seam: the body of the process-wide `clock_gettime` for client threads. grex reads no clock today; the
// seam exists so that a change which introduces one (a time budget, a deadline) meets a clock the simulator owns:
// on a quarter of the client threads time jumps forward by seconds to hours between two readings.
// ---------------------------------------------------------------------------------------

thread_local! {
    /// (enabled, prng state, accumulated offset in ns)
    static SIM_CLOCK: Cell<(bool, u64, i64)> = const { Cell::new((false, 0, 0)) };
}
pub static CLOCK_READS_SIMULATED: AtomicU64 = AtomicU64::new(0);
pub static CLOCK_JUMPS: AtomicU64 = AtomicU64::new(0);

pub fn enable_jumpy_clock(seed: u64) {
    SIM_CLOCK.with(|c| c.set((true, seed | 1, 0)));
}

/// Returns the offset (ns) to add to the real reading on this thread, advancing the simulated skew; None when
/// the thread reads the real clock.
pub fn sim_clock_offset() -> Option<i64> {
    let (on, mut st, mut off) = SIM_CLOCK.with(|c| c.get());
    if !on {
        return None;
    }
    CLOCK_READS_SIMULATED.fetch_add(1, Ordering::Relaxed);
    let r = splitmix64(&mut st);
    // one reading in 8 sees a jump: 2 s, 10 s, 1 min or 1 h (never backwards: the clock stays monotonic)
    if r % 8 == 0 {
        let jump_s: i64 = [2, 10, 60, 3600][((r >> 8) % 4) as usize];
        off += jump_s * 1_000_000_000;
        CLOCK_JUMPS.fetch_add(1, Ordering::Relaxed);
    }
    SIM_CLOCK.with(|c| c.set((true, st, off)));
    Some(off)
}

// ---------------------------------------------------------------------------------------
// In-build hook
// ---------------------------------------------------------------------------------------

pub struct Shared {
    pub sched: Sched,
    pub events: Mutex<Vec<Event>>,
    pub mailboxes: Mutex<Vec<Option<RegExpBuilder>>>,
    pub site_enabled: Vec<bool>,
    pub site_hits: Vec<AtomicU64>,
    pub in_build: Vec<AtomicBool>,
    pub preempts: Vec<Preempt>,
    pub client_fps: Vec<u64>,
    /// hook visits per client (all sites)
    pub visits: Vec<AtomicU64>,
    /// preemptions that were carried out at the next hook because it came before the requested instruction count
    pub preempt_at_next_hook: AtomicU64,
}

thread_local! {
    static CLIENT: RefCell<Option<(usize, Arc<Shared>)>> = const { RefCell::new(None) };
    /// what the SIGTRAP handler needs (plain slots: no borrow flag, no destructor): client id, the run's shared
    /// state (kept alive by the client's own Arc for as long as this is set), who takes the baton
    static STEP_CTX: Cell<(usize, *const Shared, usize)> = const { Cell::new((0, std::ptr::null(), 0)) };
    static HOOK_VISITS: Cell<u64> = const { Cell::new(0) };
}

thread_local! {
    static TRACE_BUF: RefCell<Vec<u32>> = const { RefCell::new(Vec::new()) };
    /// (fingerprint of the client's history, visit) of the trace being recorded
    static TRACE_KEY: Cell<(u64, u64)> = const { Cell::new((0, 0)) };
}

/// Stretches recorded by trace runs in this process: (history fingerprint of the client, visit) -> text offsets of
/// the instructions arrived at after that visit.
pub static TRACES: Mutex<BTreeMap<(u64, u64), Arc<Vec<u32>>>> = Mutex::new(BTreeMap::new());
/// Length of the stretch recorded by the last trace run of this process.
pub static LAST_TRACE_LEN: AtomicU64 = AtomicU64::new(0);

pub fn client_fingerprint(c: &crate::workload::ClientSpec) -> u64 {
    let mut h = fnv_mix(0xcbf2_9ce4_8422_2325, &c.hash_seed.to_le_bytes());
    for op in &c.ops {
        h = fnv_mix(h, op.to_json().to_string().as_bytes());
    }
    h
}

/// Ends whatever positioning is active on this thread (single-stepping, a trace, a breakpoint). Returns true iff a
/// single-step preemption was still pending (it is then carried out by the caller, at the hook).
fn end_positioning() -> bool {
    let pending = step::disarm();
    if step::tracing() {
        TRACE_BUF.with(|b| {
            let mut b = b.borrow_mut();
            step::end_trace(&mut b);
            LAST_TRACE_LEN.store(b.len() as u64, Ordering::SeqCst);
            TRACES.lock().unwrap().insert(TRACE_KEY.with(|k| k.get()), Arc::new(b.clone()));
        });
        return false;
    }
    step::disarm_break();
    pending
}

/// Parks the calling client between two instructions (called from the SIGTRAP handler) or at a hook.
fn preempt_now() {
    let (id, shared, to) = STEP_CTX.with(|c| c.get());
    if shared.is_null() {
        return;
    }
    let shared = unsafe { &*shared };
    let was = IN_LIBRARY[id % 64].swap(false, Ordering::SeqCst);
    shared.sched.preempt_to(id, to);
    IN_LIBRARY[id % 64].store(was, Ordering::SeqCst);
}

/// In-build site at which each client is currently parked (index + 1; 0 = not parked inside build()).
static PARKED_SITE: [std::sync::atomic::AtomicUsize; 64] = [const { std::sync::atomic::AtomicUsize::new(0) }; 64];
/// Sites found to lie inside a critical section of the code under test (a lock is held there): parking a
/// client at such a site only makes the others wait for it, so the site is switched off for the rest of the
/// process. Always empty on code that holds no lock across a hook point.
pub static CRITICAL_SITES: AtomicU64 = AtomicU64::new(0);

/// Set while a client executes a call into the library under test (and cleared inside the hook).
static IN_LIBRARY: [AtomicBool; 64] = [const { AtomicBool::new(false) }; 64];

fn client_in_library(id: usize) -> bool {
    IN_LIBRARY[id % 64].load(Ordering::SeqCst)
}

/// Runs a library call with the client marked as executing code under test.
fn in_library<T>(id: usize, f: impl FnOnce() -> T) -> T {
    IN_LIBRARY[id % 64].store(true, Ordering::SeqCst);
    api_entry_visit();
    let r = f();
    // no positioning outlives the call it was started in
    end_positioning();
    IN_LIBRARY[id % 64].store(false, Ordering::SeqCst);
    r
}

fn note_lock_handover() {
    for p in PARKED_SITE.iter() {
        let v = p.load(Ordering::SeqCst);
        if v > 0 {
            CRITICAL_SITES.fetch_or(1u64 << (v - 1), Ordering::SeqCst);
        }
    }
}

fn site_index(site: &str) -> Option<usize> {
    SITES.iter().position(|s| *s == site)
}

pub fn point_hook(site: &'static str) {
    // a preemption whose instruction count reaches beyond this hook takes place here
    let pending = end_positioning();
    let ctx = CLIENT.with(|c| c.borrow().as_ref().map(|(id, sh)| (*id, sh.clone())));
    if let Some((id, shared)) = ctx {
        if pending {
            shared.preempt_at_next_hook.fetch_add(1, Ordering::Relaxed);
            preempt_now();
        }
        let visit = next_visit(id, &shared);
        if let Some(ix) = site_index(site) {
            shared.site_hits[ix].fetch_add(1, Ordering::Relaxed);
            if shared.site_enabled[ix] && CRITICAL_SITES.load(Ordering::Relaxed) & (1u64 << ix) == 0 {
                PARKED_SITE[id % 64].store(ix + 1, Ordering::SeqCst);
                IN_LIBRARY[id % 64].store(false, Ordering::SeqCst);
                shared.sched.yield_point(id, true);
                IN_LIBRARY[id % 64].store(true, Ordering::SeqCst);
                PARKED_SITE[id % 64].store(0, Ordering::SeqCst);
            }
        }
        maybe_preempt(id, shared, visit);
    }
}

/// Numbers the points at which an instruction-granular preemption can start: every call of the in-build hook and
/// the entry of every call into the library.
fn next_visit(id: usize, shared: &Shared) -> u64 {
    let visit = HOOK_VISITS.with(|v| {
        v.set(v.get() + 1);
        v.get()
    });
    shared.visits[id].store(visit, Ordering::Relaxed);
    visit
}

/// If the run specification names this visit: hand over right here, or start single-stepping. Must be the last
/// thing its caller does before it returns into the code under test.
#[inline(always)]
fn maybe_preempt(id: usize, shared: Arc<Shared>, visit: u64) {
    if shared.preempts.is_empty() {
        return;
    }
    if let Some(p) = shared.preempts.iter().find(|p| p.client == id && p.visit == visit) {
        let (steps, to, via) = (p.steps, p.to, p.via);
        STEP_CTX.with(|c| c.set((id, Arc::as_ptr(&shared), to)));
        let fp = shared.client_fps[id];
        drop(shared);
        if via == 2 && step::available() {
            // trace run: record the stretch after this visit
            TRACE_KEY.with(|k| k.set((fp, visit)));
            TRACE_BUF.with(|b| {
                let mut b = b.borrow_mut();
                b.clear();
                b.reserve(steps as usize);
                step::arm_trace(&mut b);
            });
        } else if steps == 0 || !step::available() {
            preempt_now();
        } else if via == 1 {
            // breakpoint on the steps-th address of the recorded stretch, at its occurrence among the first steps
            let trace = TRACES.lock().unwrap().get(&(fp, visit)).cloned();
            match trace {
                Some(t) if (steps as usize) <= t.len() => {
                    let off = t[steps as usize - 1];
                    let occ = t[..steps as usize].iter().filter(|x| **x == off).count() as u32;
                    if !step::arm_break(off, occ) && steps <= 256 {
                        // no debug register to be had: single-step (short distances only)
                        step::arm(steps);
                    }
                }
                // beyond the recorded stretch: nothing to stop at
                Some(_) => {}
                None => step::arm(steps),
            }
        } else {
            step::arm(steps);
        }
    }
}

/// The entry of a call into the library is a visit too (the library has no hook before its first own one).
fn api_entry_visit() {
    let ctx = CLIENT.with(|c| c.borrow().as_ref().map(|(id, sh)| (*id, sh.clone())));
    if let Some((id, shared)) = ctx {
        let visit = next_visit(id, &shared);
        maybe_preempt(id, shared, visit);
    }
}

// ---------------------------------------------------------------------------------------
// Events
// ---------------------------------------------------------------------------------------

#[derive(Clone, Debug, PartialEq, Eq)]
pub enum EvKind {
    New,
    Set { setter: String, panic: Option<String> },
    FailSet { which: u8, panic: Option<String> },
    Build(Outcome),
    Clone,
    Send { mailbox: usize },
    Recv { mailbox: usize },
    Deadlocked,
}

#[derive(Clone, Debug, PartialEq, Eq)]
pub struct Event {
    pub client: usize,
    pub op_idx: usize,
    pub kind: EvKind,
}

impl Event {
    pub fn to_json(&self) -> Value {
        let k = match &self.kind {
            EvKind::New => json!("new"),
            EvKind::Set { setter, panic } => json!({"set": setter, "panic": panic}),
            EvKind::FailSet { which, panic } => json!({"failset": which, "panic": panic}),
            EvKind::Build(o) => json!({"build": o.to_json()}),
            EvKind::Clone => json!("clone"),
            EvKind::Send { mailbox } => json!({"send": mailbox}),
            EvKind::Recv { mailbox } => json!({"recv": mailbox}),
            EvKind::Deadlocked => json!("deadlocked"),
        };
        json!({"c": self.client, "i": self.op_idx, "e": k})
    }
}

fn client_main(id: usize, hash_seed: u64, ops: Vec<Op>, shared: Arc<Shared>) {
    set_hash_stream(hash_seed);
    if hash_seed % 4 == 0 {
        enable_jumpy_clock(hash_seed ^ 0xC10C_C10C);
    }
    CLIENT.with(|c| *c.borrow_mut() = Some((id, shared.clone())));
    STEP_CTX.with(|c| c.set((id, Arc::as_ptr(&shared), id)));
    HOOK_VISITS.with(|v| v.set(0));
    shared.sched.wait_first_turn(id);
    let mut slots: Vec<Option<RegExpBuilder>> = vec![];
    let put = |slots: &mut Vec<Option<RegExpBuilder>>, slot: usize, b: RegExpBuilder| {
        if slots.len() <= slot {
            slots.resize_with(slot + 1, || None);
        }
        slots[slot] = Some(b);
    };
    let record = |shared: &Shared, op_idx: usize, kind: EvKind| {
        shared.events.lock().unwrap().push(Event { client: id, op_idx, kind });
    };
    for (i, op) in ops.iter().enumerate() {
        if shared.sched.is_deadlocked() {
            break;
        }
        match op {
            Op::New { slot, cases } => {
                let b = in_library(id, || RegExpBuilder::from(cases));
                put(&mut slots, *slot, b);
                record(&shared, i, EvKind::New);
            }
            Op::Set { slot, setter } => {
                let b = slots[*slot].as_mut().expect("set on empty slot");
                let r = in_library(id, || guarded(|| setter.apply_real(b)));
                record(
                    &shared,
                    i,
                    EvKind::Set {
                        setter: setter.name(),
                        panic: r.err(),
                    },
                );
            }
            Op::FailSet { slot, which } => {
                let b = slots[*slot].as_mut().expect("failset on empty slot");
                let r = in_library(id, || {
                    guarded(|| {
                        if *which == 0 {
                            b.with_minimum_repetitions(0);
                        } else {
                            b.with_minimum_substring_length(0);
                        }
                    })
                });
                record(
                    &shared,
                    i,
                    EvKind::FailSet {
                        which: *which,
                        panic: r.err(),
                    },
                );
            }
            Op::Build { slot } => {
                let b = slots[*slot].as_mut().expect("build on empty slot");
                shared.in_build[id].store(true, Ordering::Relaxed);
                let r = in_library(id, || guarded(|| b.build()));
                shared.in_build[id].store(false, Ordering::Relaxed);
                let o = match r {
                    Ok(s) => Outcome::Ok(s),
                    Err(m) => Outcome::Panic(m),
                };
                record(&shared, i, EvKind::Build(o));
            }
            Op::Clone { from, to } => {
                let c = in_library(id, || slots[*from].as_ref().expect("clone of empty slot").clone());
                put(&mut slots, *to, c);
                record(&shared, i, EvKind::Clone);
            }
            Op::Send { slot, mailbox } => {
                let b = slots[*slot].take().expect("send of empty slot");
                shared.mailboxes.lock().unwrap()[*mailbox] = Some(b);
                shared.sched.mailbox_filled(*mailbox);
                record(&shared, i, EvKind::Send { mailbox: *mailbox });
            }
            Op::Recv { slot, mailbox } => {
                if !shared.sched.wait_mailbox(id, *mailbox) {
                    record(&shared, i, EvKind::Deadlocked);
                    break;
                }
                let b = shared.mailboxes.lock().unwrap()[*mailbox].take().expect("mailbox empty after wait");
                put(&mut slots, *slot, b);
                record(&shared, i, EvKind::Recv { mailbox: *mailbox });
            }
        }
        // switch point at every API call boundary
        shared.sched.yield_point(id, false);
    }
    in_library(id, || drop(slots));
    STEP_CTX.with(|c| c.set((0, std::ptr::null(), 0)));
    CLIENT.with(|c| *c.borrow_mut() = None);
    shared.sched.finish(id);
}

/// What the last executed run reported about its preemptions: (hook visits per client, preemptions carried out,
/// of which at the next hook). Read by the adaptive sweep generator.
pub static LAST_RUN_INFO: Mutex<(Vec<u64>, u64, u64)> = Mutex::new((Vec::new(), 0, 0));

/// Set in the processes of the cold-start sweep: no warm-up builds, the first use of everything happens inside the run.
pub static COLD: AtomicBool = AtomicBool::new(false);

/// Longest stretch (instructions arrived at inside this executable) a trace run records after one visit.
pub const TRACE_CAPACITY: u32 = 20_000;

pub struct RunResult {
    pub events: Vec<Event>,
    pub decisions: Vec<usize>,
    pub switches: u64,
    pub switches_in_build: u64,
    pub steps: u64,
    pub deadlock: bool,
    pub lock_handovers: u64,
    pub sched_state: String,
    pub site_hits: Vec<u64>,
    /// hook visits per client
    pub visits: Vec<u64>,
    pub preemptions: u64,
    pub preempt_at_next_hook: u64,
}

/// Builds that bring the lazily initialised tables of the library into their steady state, so that an instruction
/// count after a hook means the same in the process that found a violation and in the process that replays it.
fn warm_up_for_stepping() {
    static DONE: std::sync::Once = std::sync::Once::new();
    DONE.call_once(|| {
        let _ = std::thread::Builder::new()
            .name("warm-up".into())
            .stack_size(8 << 20)
            .spawn(|| {
                set_hash_stream(0x3A13_0000_0000_0077);
                let cases = vec!["a1 ".to_string(), "Z_\u{e9}".to_string(), "\u{663}:[".to_string()];
                for mask in 0u32..8 {
                    let _ = guarded(|| {
                        let mut b = RegExpBuilder::from(&cases);
                        if mask & 1 != 0 {
                            b.with_conversion_of_digits().with_conversion_of_words().with_conversion_of_whitespace();
                        }
                        if mask & 2 != 0 {
                            b.with_conversion_of_non_digits().with_conversion_of_non_words().with_conversion_of_non_whitespace();
                        }
                        if mask & 4 != 0 {
                            b.with_conversion_of_repetitions().with_case_insensitive_matching().with_escaping_of_non_ascii_chars(true);
                        }
                        b.build()
                    });
                }
            })
            .expect("spawn warm-up")
            .join();
    });
}

pub fn execute_run(spec: &RunSpec) -> RunResult {
    let n = spec.clients.len();
    if !spec.preempts.is_empty() {
        step::install(preempt_now);
        if !COLD.load(Ordering::SeqCst) {
            warm_up_for_stepping();
        }
        // a breakpoint position refers to a recorded stretch: record it first if this process has none yet
        for p in spec.preempts.iter().filter(|p| p.via == 1 && p.steps > 0) {
            let key = (client_fingerprint(&spec.clients[p.client]), p.visit);
            if !TRACES.lock().unwrap().contains_key(&key) {
                let mut t = spec.clone();
                t.preempts = vec![Preempt { client: p.client, visit: p.visit, steps: TRACE_CAPACITY, to: p.client, via: 2 }];
                let _ = execute_run(&t);
            }
        }
    }
    let est_steps: u64 = spec.clients.iter().map(|c| c.ops.len() as u64).sum::<u64>() * 6 + 4;
    let all_sites = spec.sites.iter().any(|s| s == "*");
    let mut sched = Sched::new(n, spec.mailboxes, &spec.sched, est_steps);
    sched.on_lock_handover = Some(note_lock_handover);
    sched.in_code_under_test = Some(client_in_library);
    for f in IN_LIBRARY.iter() {
        f.store(false, Ordering::SeqCst);
    }
    for p in PARKED_SITE.iter() {
        p.store(0, Ordering::SeqCst);
    }
    let shared = Arc::new(Shared {
        sched,
        events: Mutex::new(vec![]),
        mailboxes: Mutex::new((0..spec.mailboxes).map(|_| None).collect()),
        site_enabled: SITES
            .iter()
            .map(|s| all_sites || spec.sites.iter().any(|x| x == s))
            .collect(),
        site_hits: SITES.iter().map(|_| AtomicU64::new(0)).collect(),
        in_build: (0..n).map(|_| AtomicBool::new(false)).collect(),
        preempts: spec.preempts.clone(),
        client_fps: spec.clients.iter().map(client_fingerprint).collect(),
        visits: (0..n).map(|_| AtomicU64::new(0)).collect(),
        preempt_at_next_hook: AtomicU64::new(0),
    });
    let mut handles = vec![];
    for (id, c) in spec.clients.iter().enumerate() {
        let sh = shared.clone();
        let ops = c.ops.clone();
        let hs = c.hash_seed;
        handles.push(
            std::thread::Builder::new()
                .name(format!("client-{}", id))
                .stack_size(8 << 20)
                .spawn(move || client_main(id, hs, ops, sh))
                .expect("spawn client"),
        );
    }
    shared.sched.run_to_end();
    let (decisions, switches, switches_in_build, steps, deadlock) = shared.sched.summary();
    if !deadlock {
        for h in handles {
            let _ = h.join();
        }
    }
    let events = shared.events.lock().unwrap().clone();
    *LAST_RUN_INFO.lock().unwrap() = (
        shared.visits.iter().map(|a| a.load(Ordering::Relaxed)).collect(),
        shared.sched.preemptions(),
        shared.preempt_at_next_hook.load(Ordering::Relaxed),
    );
    RunResult {
        events,
        decisions,
        switches,
        switches_in_build,
        steps,
        deadlock,
        lock_handovers: shared.sched.lock_handovers(),
        sched_state: if deadlock { shared.sched.describe() } else { String::new() },
        site_hits: shared.site_hits.iter().map(|a| a.load(Ordering::Relaxed)).collect(),
        visits: shared.visits.iter().map(|a| a.load(Ordering::Relaxed)).collect(),
        preemptions: shared.sched.preemptions(),
        preempt_at_next_hook: shared.preempt_at_next_hook.load(Ordering::Relaxed),
    }
}

// ---------------------------------------------------------------------------------------
// Golden oracle (in-process): a dedicated thread with a fixed hash stream
// ---------------------------------------------------------------------------------------

pub struct Oracle {
    tx: mpsc::Sender<(Key, mpsc::Sender<Outcome>)>,
    cache: BTreeMap<Key, Outcome>,
    pub computed: u64,
}

impl Oracle {
    pub fn new(hash_seed: u64) -> Oracle {
        let (tx, rx) = mpsc::channel::<(Key, mpsc::Sender<Outcome>)>();
        std::thread::Builder::new()
            .name("oracle".into())
            .stack_size(8 << 20)
            .spawn(move || {
                set_hash_stream(hash_seed);
                while let Ok((key, reply)) = rx.recv() {
                    let _ = reply.send(key.golden());
                }
            })
            .expect("spawn oracle");
        Oracle {
            tx,
            cache: BTreeMap::new(),
            computed: 0,
        }
    }

    pub fn golden(&mut self, key: &Key) -> Outcome {
        if let Some(o) = self.cache.get(key) {
            return o.clone();
        }
        let (rtx, rrx) = mpsc::channel();
        self.tx.send((key.clone(), rtx)).expect("oracle thread gone");
        let o = rrx.recv().expect("oracle thread died");
        self.computed += 1;
        self.cache.insert(key.clone(), o.clone());
        o
    }

    pub fn keys(&self) -> impl Iterator<Item = (&Key, &Outcome)> {
        self.cache.iter()
    }
}

// ---------------------------------------------------------------------------------------
// Checking a recorded history against the model
// ---------------------------------------------------------------------------------------

pub const MIN_REP_MSG: &str = "Quantity of minimum repetitions must be greater than zero";
pub const MIN_LEN_MSG: &str = "Minimum substring length must be greater than zero";

#[derive(Clone, Debug)]
pub struct Violation {
    pub class: String,
    pub client: usize,
    pub op_idx: usize,
    pub key: Option<Key>,
    pub observed: String,
    pub expected: String,
}

impl Violation {
    pub fn to_json(&self) -> Value {
        json!({
            "class": self.class, "client": self.client, "op_idx": self.op_idx,
            "key": self.key.as_ref().map(|k| k.encode()),
            "observed": self.observed, "expected": self.expected,
        })
    }
}

#[derive(Default, Clone, Debug)]
pub struct HistoryStats {
    pub builds: u64,
    pub build_after_build: u64,
    pub build_on_clone: u64,
    pub build_after_move: u64,
    pub build_after_failed_setter: u64,
    pub build_panics: u64,
    pub intermediate_builds: u64,
}

#[derive(Clone)]
struct MBuilder {
    set: BTreeSet<String>,
    cfg: Cfg,
    builds: u32,
    is_clone: bool,
    moved: bool,
    failed_setter: bool,
}

/// Replays the recorded events through the model. For every build event calls `expect(key)` and
/// compares. Returns violations (first per run is enough for reporting, but all are collected).
pub fn check_history(
    spec: &RunSpec,
    events: &[Event],
    expect: &mut dyn FnMut(&Key) -> Outcome,
    stats: &mut HistoryStats,
    observed_keys: &mut Vec<(Key, Outcome)>,
) -> Vec<Violation> {
    let mut viol = vec![];
    let mut slots: Vec<Vec<Option<MBuilder>>> = spec.clients.iter().map(|_| vec![]).collect();
    let mut mailboxes: Vec<Option<MBuilder>> = (0..spec.mailboxes).map(|_| None).collect();
    let put = |slots: &mut Vec<Option<MBuilder>>, slot: usize, b: MBuilder| {
        if slots.len() <= slot {
            slots.resize(slot + 1, None);
        }
        slots[slot] = Some(b);
    };
    for ev in events {
        let op = match spec.clients.get(ev.client).and_then(|c| c.ops.get(ev.op_idx)) {
            Some(op) => op,
            None => continue,
        };
        match (&ev.kind, op) {
            (EvKind::New, Op::New { slot, cases }) => {
                put(
                    &mut slots[ev.client],
                    *slot,
                    MBuilder {
                        set: cases.iter().cloned().collect(),
                        cfg: Cfg::default(),
                        builds: 0,
                        is_clone: false,
                        moved: false,
                        failed_setter: false,
                    },
                );
            }
            (EvKind::Set { setter, panic }, Op::Set { slot, .. }) => {
                let s = Setter::parse(setter).expect("setter name");
                if let Some(msg) = panic {
                    viol.push(Violation {
                        class: "valid_setter_panicked".into(),
                        client: ev.client,
                        op_idx: ev.op_idx,
                        key: None,
                        observed: format!("{} panicked: {}", setter, msg),
                        expected: "setter returns".into(),
                    });
                } else if let Some(Some(b)) = slots[ev.client].get_mut(*slot) {
                    s.apply_model(&mut b.cfg);
                }
            }
            (EvKind::FailSet { which, panic }, Op::FailSet { slot, .. }) => {
                if let Some(Some(b)) = slots[ev.client].get_mut(*slot) {
                    match panic {
                        Some(_) => b.failed_setter = true, // a failed call must leave no trace: model unchanged
                        None => {
                            // the call was accepted (not C10's business): follow the implementation
                            if *which == 0 {
                                b.cfg.min_rep = 0
                            } else {
                                b.cfg.min_len = 0
                            }
                        }
                    }
                }
            }
            (EvKind::Build(outcome), Op::Build { slot }) => {
                if let Some(Some(b)) = slots[ev.client].get_mut(*slot) {
                    stats.builds += 1;
                    if b.builds > 0 {
                        stats.build_after_build += 1;
                    }
                    if b.is_clone {
                        stats.build_on_clone += 1;
                    }
                    if b.moved {
                        stats.build_after_move += 1;
                    }
                    if b.failed_setter {
                        stats.build_after_failed_setter += 1;
                    }
                    if matches!(outcome, Outcome::Panic(_)) {
                        stats.build_panics += 1;
                    }
                    b.builds += 1;
                    let key = Key {
                        set: b.set.clone(),
                        cfg: b.cfg.clone(),
                    };
                    let want = expect(&key);
                    observed_keys.push((key.clone(), outcome.clone()));
                    if *outcome != want {
                        viol.push(Violation {
                            class: "build_differs_from_golden".into(),
                            client: ev.client,
                            op_idx: ev.op_idx,
                            key: Some(key),
                            observed: outcome.short(),
                            expected: want.short(),
                        });
                    }
                }
            }
            (EvKind::Clone, Op::Clone { from, to }) => {
                if let Some(Some(b)) = slots[ev.client].get(*from).cloned() {
                    let mut c = b.clone();
                    c.is_clone = true;
                    c.builds = 0;
                    put(&mut slots[ev.client], *to, c);
                }
            }
            (EvKind::Send { mailbox }, Op::Send { slot, .. }) => {
                if let Some(b) = slots[ev.client].get_mut(*slot).and_then(|x| x.take()) {
                    mailboxes[*mailbox] = Some(b);
                }
            }
            (EvKind::Recv { mailbox }, Op::Recv { slot, .. }) => {
                if let Some(mut b) = mailboxes[*mailbox].take() {
                    b.moved = true;
                    put(&mut slots[ev.client], *slot, b);
                }
            }
            (EvKind::Deadlocked, _) => {}
            _ => {
                viol.push(Violation {
                    class: "harness_event_mismatch".into(),
                    client: ev.client,
                    op_idx: ev.op_idx,
                    key: None,
                    observed: format!("{:?}", ev.kind),
                    expected: format!("{:?}", op),
                });
            }
        }
    }
    viol
}

pub fn events_digest(h: u64, events: &[Event], decisions: &[usize]) -> u64 {
    let mut h = h;
    for e in events {
        h = fnv_mix(h, e.to_json().to_string().as_bytes());
    }
    for d in decisions {
        h = fnv_mix(h, &(*d as u32).to_le_bytes());
    }
    h
}
