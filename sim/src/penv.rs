//! The process environment of a simulated process lifetime, as far as the library could look at it: environment
//! variables (locale settings above all, and any variable whose name the binary itself mentions together with the
//! program's name) and the set of CPUs the process may run on (`available_parallelism`). A build result must not
//! depend on any of it; the fresh-process golden builds always run in the canonical environment (no variables,
//! all CPUs), so a dependence shows up as a disagreement.

use crate::prng::Rng;
use serde_json::{json, Value};

#[derive(Clone, Debug, Default)]
pub struct ProcEnv {
    pub vars: Vec<(String, String)>,
    /// number of CPUs the process is confined to (0 = no confinement)
    pub cpus: usize,
}

/// Names like `GREX_SOMETHING` found in the executable's own bytes (the library is linked into it).
pub fn discovered_names() -> Vec<String> {
    let mut out: Vec<String> = vec![];
    let bytes = match std::env::current_exe().and_then(std::fs::read) {
        Ok(b) => b,
        Err(_) => return out,
    };
    let pat = b"GREX_";
    let mut i = 0;
    while i + pat.len() < bytes.len() {
        // string literals lie back to back in the binary: no word boundary can be required on either side
        if &bytes[i..i + pat.len()] == pat {
            let mut j = i + pat.len();
            while j < bytes.len() && (bytes[j].is_ascii_uppercase() || bytes[j].is_ascii_digit() || bytes[j] == b'_') {
                j += 1;
            }
            if j > i + pat.len() && j - i <= 48 {
                let name = String::from_utf8_lossy(&bytes[i..j]).to_string();
                // the next literal may start with a capital letter that got glued on: also try without it
                if name.len() > 8 {
                    let shorter = name[..name.len() - 1].trim_end_matches('_').to_string();
                    if !out.contains(&shorter) {
                        out.push(shorter);
                    }
                }
                if !out.contains(&name) && !name.starts_with("GREX_SIM") {
                    out.push(name);
                }
            }
            i = j;
        } else {
            i += 1;
        }
    }
    out.sort();
    out.truncate(16);
    out
}

pub fn choose(seed: u64) -> ProcEnv {
    let mut rng = Rng::new(seed);
    let mut vars: Vec<(String, String)> = vec![];
    // half of the processes run in the canonical environment
    if rng.chance(1, 2) {
        return ProcEnv { vars, cpus: 0 };
    }
    const POOL: &[(&str, &[&str])] = &[
        ("LANG", &["tr_TR.UTF-8", "az_AZ.UTF-8", "C", "de_DE.UTF-8", "lt_LT.UTF-8"]),
        ("LC_ALL", &["tr_TR.UTF-8", "C", "POSIX", "az_AZ"]),
        ("LC_CTYPE", &["tr_TR.UTF-8", "C"]),
        ("LC_COLLATE", &["C", "cs_CZ.UTF-8"]),
        ("TZ", &["Pacific/Kiritimati", "UTC"]),
        ("HOME", &["/nonexistent", "/"]),
        ("COLUMNS", &["20", "400"]),
        ("NO_COLOR", &["1"]),
        ("RUST_LOG", &["trace"]),
        ("RAYON_NUM_THREADS", &["1", "3"]),
    ];
    let n = rng.range(1, 3);
    for _ in 0..n {
        let (k, vals) = rng.pick(POOL);
        if !vars.iter().any(|(k2, _)| k2 == k) {
            vars.push((k.to_string(), rng.pick(vals).to_string()));
        }
    }
    for name in discovered_names() {
        if rng.chance(1, 2) {
            vars.push((name, rng.pick(&["1", "0", "-r", "--digits", "true", "x", "2"]).to_string()));
        }
    }
    let cpus = *rng.pick(&[0usize, 0, 1, 2, 3, 5]);
    ProcEnv { vars, cpus }
}

/// Applies the environment to THIS process. Must be called before any thread is started.
pub fn apply(env: &ProcEnv) {
    for (k, v) in &env.vars {
        std::env::set_var(k, v);
    }
    if env.cpus > 0 {
        unsafe {
            let mut cur: libc::cpu_set_t = std::mem::zeroed();
            if libc::sched_getaffinity(0, std::mem::size_of::<libc::cpu_set_t>(), &mut cur) == 0 {
                let mut set: libc::cpu_set_t = std::mem::zeroed();
                let mut taken = 0;
                for cpu in 0..libc::CPU_SETSIZE as usize {
                    if libc::CPU_ISSET(cpu, &cur) && taken < env.cpus {
                        libc::CPU_SET(cpu, &mut set);
                        taken += 1;
                    }
                }
                if taken > 0 {
                    libc::sched_setaffinity(0, std::mem::size_of::<libc::cpu_set_t>(), &set);
                }
            }
        }
    }
}

/// The canonical environment of golden builds: none of the variables this module may set.
pub fn clear_for_golden(cmd: &mut std::process::Command) {
    for k in ["LANG", "LC_ALL", "LC_CTYPE", "LC_COLLATE", "TZ", "COLUMNS", "NO_COLOR", "RUST_LOG", "RAYON_NUM_THREADS", "RUST_BACKTRACE"] {
        cmd.env_remove(k);
    }
    for (k, _) in std::env::vars() {
        if k.starts_with("GREX_") {
            cmd.env_remove(k);
        }
    }
}

impl ProcEnv {
    pub fn to_json(&self) -> Value {
        json!({"vars": self.vars.iter().map(|(k, v)| json!([k, v])).collect::<Vec<_>>(), "cpus": self.cpus})
    }
    pub fn from_json(v: &Value) -> ProcEnv {
        ProcEnv {
            vars: v
                .get("vars")
                .and_then(|x| x.as_array())
                .map(|a| {
                    a.iter()
                        .filter_map(|e| Some((e.get(0)?.as_str()?.to_string(), e.get(1)?.as_str()?.to_string())))
                        .collect()
                })
                .unwrap_or_default(),
            cpus: v.get("cpus").and_then(|x| x.as_u64()).unwrap_or(0) as usize,
        }
    }
}
