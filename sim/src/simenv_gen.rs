//! Case generation for simenv: corpus, framing, flag spelling, fault plans, the low-order sweep
//! and the seeded search.

use crate::model::Cfg;
use crate::prng::Rng;
use crate::simenv_case::{Case, FileMode};
use crate::workload::{gen_cfg, gen_set, PROFILES};

pub use crate::simenv_case::PLANNED_PATH;

/// CLI spelling of a configuration: every flag short or long, in a shuffled order.
pub fn flags_for(cfg: &Cfg, rng: &mut Rng) -> Vec<String> {
    let mut f: Vec<String> = vec![];
    let sl = |rng: &mut Rng, s: &str, l: &str| if !s.is_empty() && rng.chance(1, 2) { s.to_string() } else { l.to_string() };
    if cfg.digits {
        f.push(sl(rng, "-d", "--digits"));
    }
    if cfg.non_digits {
        f.push(sl(rng, "-D", "--non-digits"));
    }
    if cfg.spaces {
        f.push(sl(rng, "-s", "--spaces"));
    }
    if cfg.non_spaces {
        f.push(sl(rng, "-S", "--non-spaces"));
    }
    if cfg.words {
        f.push(sl(rng, "-w", "--words"));
    }
    if cfg.non_words {
        f.push(sl(rng, "-W", "--non-words"));
    }
    if cfg.repetitions {
        f.push(sl(rng, "-r", "--repetitions"));
    }
    if cfg.ignore_case {
        f.push(sl(rng, "-i", "--ignore-case"));
    }
    if cfg.capture {
        f.push(sl(rng, "-g", "--capture-groups"));
    }
    if cfg.escape {
        f.push(sl(rng, "-e", "--escape"));
        if cfg.surrogates {
            f.push("--with-surrogates".into());
        }
    }
    if cfg.verbose {
        f.push(sl(rng, "-x", "--verbose"));
    }
    if cfg.colorize {
        f.push(sl(rng, "-c", "--colorize"));
    }
    if cfg.no_start && cfg.no_end {
        match rng.below(4) {
            0 => f.push("--no-anchors".into()),
            1 => {
                f.push("--no-start-anchor".into());
                f.push("--no-end-anchor".into());
            }
            2 => {
                f.push("--no-anchors".into());
                f.push("--no-start-anchor".into());
            }
            _ => {
                f.push("--no-end-anchor".into());
                f.push("--no-anchors".into());
            }
        }
    } else if cfg.no_start {
        f.push("--no-start-anchor".into());
    } else if cfg.no_end {
        f.push("--no-end-anchor".into());
    }
    // threshold options take a value: "--opt N" or "--opt=N"; the two words stay adjacent
    let mut units: Vec<Vec<String>> = f.into_iter().map(|x| vec![x]).collect();
    // a number may be spelled with a plus sign or leading zeros (u32::from_str accepts both)
    let spell = |rng: &mut Rng, n: u32| match rng.below(6) {
        0 => format!("+{}", n),
        1 => format!("0{}", n),
        2 => format!("000{}", n),
        _ => n.to_string(),
    };
    if cfg.min_rep != 1 || rng.chance(1, 6) {
        let v = spell(rng, cfg.min_rep);
        units.push(if rng.chance(1, 2) { vec!["--min-repetitions".into(), v] } else { vec![format!("--min-repetitions={}", v)] });
    }
    if cfg.min_len != 1 || rng.chance(1, 6) {
        let v = spell(rng, cfg.min_len);
        units.push(if rng.chance(1, 2) { vec!["--min-substring-length".into(), v] } else { vec![format!("--min-substring-length={}", v)] });
    }
    rng.shuffle(&mut units);
    let mut flat: Vec<String> = units.into_iter().flatten().collect();
    // neighbouring single-letter flags may be written as one word (-dw)
    if rng.chance(1, 3) {
        let mut merged: Vec<String> = vec![];
        for a in flat.into_iter() {
            let short = |x: &str| x.len() == 2 && x.starts_with('-') && x != "--" && x.as_bytes()[1].is_ascii_alphabetic();
            if let Some(last) = merged.last_mut() {
                if short(&a) && last.starts_with('-') && !last.starts_with("--") && last.len() >= 2 && last[1..].chars().all(|c| c.is_ascii_alphabetic()) && rng.chance(2, 3) {
                    last.push_str(&a[1..]);
                    continue;
                }
            }
            merged.push(a);
        }
        flat = merged;
    }
    flat
}

/// CLI-reachable configurations only (surrogates need escape; thresholds >= 1).
pub fn cli_cfg(rng: &mut Rng, density: u64) -> Cfg {
    let mut c = gen_cfg(rng, density);
    // the whole u32 range is legal on the command line; now and then a value beyond the small ones
    if rng.chance(1, 8) {
        c.min_rep = *rng.pick(&[5u32, 6, 9, 255, 256, 65_536, u32::MAX]);
    }
    if rng.chance(1, 8) {
        c.min_len = *rng.pick(&[5u32, 7, 255, 256, 65_535, u32::MAX]);
    }
    c
}

pub fn frame(lines: &[String], crlf_mode: u64, final_newline: bool, rng: &mut Rng) -> Vec<u8> {
    let mut s = String::new();
    for (i, l) in lines.iter().enumerate() {
        s.push_str(l);
        let last = i + 1 == lines.len();
        if !last || final_newline {
            let crlf = match crlf_mode {
                0 => false,
                1 => true,
                _ => rng.chance(1, 2),
            };
            s.push_str(if crlf { "\r\n" } else { "\n" });
        }
    }
    s.into_bytes()
}

/// Is the list representable on the argument channel without changing its meaning?
pub fn argument_safe(lines: &[String]) -> bool {
    !lines.is_empty()
        && lines.iter().map(|l| l.len() + 9).sum::<usize>() < 120_000 // keep far below ARG_MAX
        && !(lines.len() == 1 && lines[0] == "-")
        && lines.iter().all(|l| (!l.starts_with('-') || (l == "-" && lines.len() > 1)) && !l.contains('\0'))
}

/// Is the list representable as lines of a stream (no line feed inside a test case, no trailing CR that
/// CRLF framing would swallow ambiguously, and the last line must not be empty when there is no final newline)?
pub fn stream_safe(lines: &[String], final_newline: bool) -> bool {
    !lines.is_empty() && lines.iter().all(|l| !l.contains('\n')) && (final_newline || !lines.last().unwrap().is_empty())
}

pub fn corpus() -> Vec<(String, Vec<String>)> {
    let s = |v: &[&str]| v.iter().map(|x| x.to_string()).collect::<Vec<_>>();
    vec![
        ("two".into(), s(&["a", "b"])),
        ("words".into(), s(&["hello world", "hello", "world 123"])),
        ("flag-sensitive".into(), s(&["a1 _-", "a1 _-x", "Ab", "ab", "zzz9", "ü💩", "abab q"])),
        ("flag-sensitive-2".into(), s(&["I ♥♥♥ 36 and ٣ and 💩💩.", "x  y", "Äb", "äb", "1", "__"])),
        ("prefix-share".into(), s(&["abc", "abd", "abcde", "xbc"])),
        // inputs on which flags interact: repetitions that exist only after case folding or after class conversion
        ("flag-interactions-case".into(), s(&["aA", "AbaB", "ÄäÖö", "Σσ"])),
        ("flag-interactions-class".into(), s(&["12", "1a2b", "a b\tc", "ab12", "-+"])),
        ("empty-middle".into(), s(&["x", "", "y"])),
        ("empty-first".into(), s(&["", "x"])),
        ("cr-inside".into(), s(&["x\ry", "z"])),
        ("cr-at-end".into(), s(&["a", "z\r"])),
        ("bom".into(), s(&["\u{feff}bom", "line"])),
        ("nul".into(), s(&["a\0b", "c"])),
        ("utf8-widths".into(), s(&["äöü", "€", "𝔸💩", "a"])),
        ("whitespace".into(), s(&["  lead", "trail  ", "\t"])),
        ("dashes".into(), s(&["-dash", "--x", "-"])),
        ("single".into(), s(&["a"])),
        // a result of a few kilobytes (more than std's 1 KiB line buffer): 200 pseudo-random six-letter words
        ("long-output".into(), {
            let mut st = 0x0DDB_A115_EED5_0001u64;
            let mut set = std::collections::BTreeSet::new();
            while set.len() < 200 {
                let w: String = (0..6).map(|_| (b'a' + (crate::prng::splitmix64(&mut st) % 26) as u8) as char).collect();
                set.insert(w);
            }
            set.into_iter().collect()
        }),
        // more than 1 MiB of input, cheap to build: 150,000 lines, 3 distinct
        ("huge-valid".into(), (0..150_000).map(|i| ["abcdefg", "abcxyz", "q"][i % 3].to_string()).collect()),
        // characters that some tools take for line breaks or terminators, and noncharacters: all belong to the test case
        ("odd-separators".into(), s(&["a\u{c}b", "c\u{85}d", "e\u{2028}f", "g\u{b}h", "\u{fffe}", "\u{ffff}x", "i\u{2029}j", "k\u{1a}l"])),
        // streams whose size is exactly a buffer size (with LF framing and a final newline): 1024 and 8192 lines of 8 bytes
        ("exact-8192".into(), (0..1024).map(|i| ["abcdefg", "abcdefh", "abcdefi"][i % 3].to_string()).collect()),
        ("exact-65536".into(), (0..8192).map(|i| ["abcdefg", "abcdefh", "abcdefi"][i % 3].to_string()).collect()),
        ("flag-like".into(), s(&["--digits", "-d", "--min-repetitions=2", "-", "--", "-f"])),
        ("hyphen-item".into(), s(&["a", "-", "b"])),
        ("hyphen-first".into(), s(&["-", "a", "b"])),
        ("hyphen-last".into(), s(&["a", "b", "-"])),
        // results that end in white space when the end anchor is off
        ("trailing-space".into(), s(&["a ", "b "])),
        ("trailing-blanks".into(), s(&["x \t"])),
        ("leading-space".into(), s(&[" a", " b"])),
        ("numbers".into(), s(&["007", "+1", "1e3", "0x1F", "3.14", "1_000", "٣٤", "४२"])),
        ("equals".into(), s(&["k=v", "a==b", "=", "x=1,y=2", "--opt=value"])),
        ("no-digits-lowercase".into(), s(&["alpha", "beta", "gamma", "alp"])),
        ("same-length".into(), s(&["abc", "abd", "xbc", "xyz", "a1c"])),
        ("with-empty".into(), s(&["", "a", "ab"])),
        ("combining".into(), s(&["e\u{301}", "é", "a\u{308}b", "ab"])),
        ("long-1100".into(), vec!["xy".repeat(550), "xy".into()]),
        ("punctuation".into(), s(&["1,5", "2,5", "a;b", "x:y", "k=v", "a|b", ",", "a, b"])),
        // only representable on the argument channel: a line feed inside a test case, a test case that ends in one
        ("newline-in-arg".into(), s(&["a\nb", "c\n", "\n"])),
        ("blank-only".into(), s(&[""])),
        ("long-line".into(), vec!["ab".repeat(150), "c".into()]),
        // more than one 8 KiB buffer of input, but cheap to build: 1300 lines, 3 distinct
        ("dup-heavy".into(), (0..1300).map(|i| ["abcdefg", "abcxyz", "q"][i % 3].to_string()).collect()),
        ("many".into(), (0..40).map(|i| format!("item{}", i * 7)).collect()),
        // > 64 KiB with multi-byte characters everywhere (so that some straddle every power-of-two buffer boundary)
        ("big-multibyte".into(), (0..6000).map(|i| ["äöü€", "日本語テキスト", "q", "𝔸💩x"][i % 4].to_string()).collect()),
    ]
}

/// Builds the case for delivering `lines` (already framed as `content` for stream channels) through a channel.
pub fn make_case(channel: &str, lines: &[String], content: &[u8], cfg: &Cfg, rng: &mut Rng, flags_first: bool) -> Case {
    let flags = flags_for(cfg, rng);
    let mut argv: Vec<String> = vec![];
    let mut input_args: Vec<String> = vec![];
    let mut stdin = vec![];
    let mut file = vec![];
    let mut file_mode = FileMode::None;
    let mut path = String::new();
    match channel {
        "args" => input_args = lines.to_vec(),
        "stdin" => {
            input_args = vec!["-".into()];
            stdin = content.to_vec();
        }
        "file" => {
            let spell = rng.below(3);
            input_args = match spell {
                0 => vec!["-f".into(), PLANNED_PATH.into()],
                1 => vec!["--file".into(), PLANNED_PATH.into()],
                _ => vec![format!("--file={}", PLANNED_PATH)],
            };
            file = content.to_vec();
            file_mode = FileMode::Memfd;
            path = PLANNED_PATH.into();
        }
        "file-via-stdin" => {
            input_args = vec!["-f".into(), "-".into()];
            let term = *rng.pick(&["", "\n", "\r\n", " \n"]);
            stdin = format!("{}{}", PLANNED_PATH, term).into_bytes();
            file = content.to_vec();
            file_mode = FileMode::Memfd;
            path = PLANNED_PATH.into();
        }
        _ => {}
    }
    // Options always precede the input (`grex [OPTIONS] {INPUT...|--file <FILE>}`): INPUT is declared with
    // allow_hyphen_values, so by design everything after the first positional value is taken as input.
    let _ = flags_first;
    argv.extend(flags);
    if channel == "args" && rng.chance(1, 4) {
        argv.push("--".into()); // end of options: what follows are values
    }
    argv.extend(input_args);
    Case {
        target: "grex".into(),
        channel: channel.into(),
        argv,
        cfg: cfg.clone(),
        arg_lines: if channel == "args" { lines.to_vec() } else { vec![] },
        stdin,
        path,
        file,
        file_mode,
        tty: 0,
        tty_out: false,
        seed: rng.next_u64(),
        events: vec![],
        dchunk: vec![],
        env: vec![],
        file_name: String::new(),
        stdin_kind: 0,
        file_kind: 0,
        stdin_offset: 0,
        relative_path: false,
        cwd: None,
        file_name_hex: String::new(),
        rlimit_as_mb: 0,
        argv_os: vec![],
        path_bytes: vec![],
        note: String::new(),
    }
}

pub fn make_probe_case(content: &[u8], cfg: &Cfg, rng: &mut Rng) -> Case {
    Case {
        target: "probe".into(),
        channel: "probe".into(),
        argv: vec![PLANNED_PATH.into(), cfg.encode()],
        cfg: cfg.clone(),
        arg_lines: vec![],
        stdin: vec![],
        path: PLANNED_PATH.into(),
        file: content.to_vec(),
        file_mode: FileMode::Memfd,
        tty: 0,
        tty_out: false,
        seed: rng.next_u64(),
        events: vec![],
        dchunk: vec![],
        env: vec![],
        file_name: String::new(),
        stdin_kind: 0,
        file_kind: 0,
        stdin_offset: 0,
        relative_path: false,
        cwd: None,
        file_name_hex: String::new(),
        rlimit_as_mb: 0,
        argv_os: vec![],
        path_bytes: vec![],
        note: String::new(),
    }
}

pub const HARD_READ_ERRNOS: &[i64] = &[5, 21, 12, 116, 104, 32, 103, 110, 107]; // EIO EISDIR ENOMEM ESTALE ECONNRESET EPIPE ECONNABORTED ETIMEDOUT ENOTCONN
pub const HARD_OPEN_ERRNOS: &[i64] = &[2, 13, 24, 40, 36, 20, 5]; // ENOENT EACCES EMFILE ELOOP ENAMETOOLONG ENOTDIR EIO

/// The call classes on which input arrives for a channel.
pub fn input_classes(channel: &str) -> Vec<&'static str> {
    match channel {
        "stdin" => vec!["r0"],
        "file" | "probe" => vec!["rf", "op", "st"],
        "file-via-stdin" => vec!["r0", "rf", "op", "st"],
        _ => vec![],
    }
}

/// A random plan of 0..=8 events. `hard` allows non-benign events (errors, early end of stream).
pub fn random_plan(case: &mut Case, rng: &mut Rng, hard: bool) {
    let big = case.stdin.len().max(case.file.len()) > 200_000;
    let n = rng.below(9);
    let mut classes = input_classes(&case.channel);
    classes.push("w1");
    if hard {
        classes.push("w2");
    }
    for _ in 0..n {
        let c = *rng.pick(&classes);
        let ev: (String, String, i64) = match c {
            "r0" | "rf" => match rng.below(if hard { 8 } else { 5 }) {
                0 | 1 | 2 => (c.into(), "chunk".into(), if big { *rng.pick(&[4096i64, 65_536, 100_000]) } else { *rng.pick(&[1i64, 1, 2, 3, 5, 7, 16, 100]) }),
                3 | 4 => (c.into(), "eintr".into(), 0),
                5 | 6 => (c.into(), "eof".into(), 0),
                _ => (c.into(), "err".into(), *rng.pick(HARD_READ_ERRNOS)),
            },
            "op" => {
                if hard && rng.chance(1, 3) {
                    (c.into(), "err".into(), *rng.pick(HARD_OPEN_ERRNOS))
                } else {
                    (c.into(), "eintr".into(), 0)
                }
            }
            "st" => {
                let len = case.file.len() as i64;
                match rng.below(if hard { 5 } else { 4 }) {
                    0 => (c.into(), "size".into(), 0),
                    1 => (c.into(), "size".into(), (len / 2).max(0)),
                    2 => (c.into(), "size".into(), len + *rng.pick(&[1i64, 7, 4096, 70000])),
                    3 => (c.into(), "size".into(), len),
                    _ => (c.into(), "err".into(), 5),
                }
            }
            _ => match rng.below(3) {
                0 | 1 => (c.into(), "chunk".into(), *rng.pick(&[1i64, 1, 2, 3, 5, 9])),
                _ => (c.into(), "eintr".into(), 0),
            },
        };
        case.events.push(ev);
    }
    if rng.chance(1, 4) {
        let c = *rng.pick(&classes);
        if c != "op" && c != "st" {
            let n = if big && (c == "r0" || c == "rf") { *rng.pick(&[4096i64, 8192, 65_536]) } else { *rng.pick(&[1i64, 2, 3, 7, 64]) };
            case.dchunk.push((c.to_string(), n));
        }
    }
}

/// Random test-case lists for the seeded search (stream channels accept more than the argument channel).
pub fn random_lines(rng: &mut Rng) -> Vec<String> {
    let profile = rng.below(PROFILES.len() as u64) as usize;
    let set = gen_set(rng, profile, 8);
    let mut v: Vec<String> = set.into_iter().map(|s| s.replace('\n', "N")).collect();
    // decorations a command line or a text file may carry around a test case: blanks, quotes, option-like or
    // path-like prefixes, separators, regex meta characters, a lone hyphen among the items
    if rng.chance(1, 3) {
        const DECOR: &[&str] = &[
            " ", "  ", "\t", "-", "--", "'", "\"", ",", ";", "#", "\\", "~", "$X", "%", "*", "?", "[", "]", "(", ")", "{", "}", "|", "^", "$", ".", "+", "=", ":", "/", "@",
            "\u{feff}", "\u{a0}", "\u{200b}",
        ];
        let how = rng.below(4);
        for x in v.iter_mut() {
            if rng.chance(1, 2) {
                let d = *rng.pick(DECOR);
                match how {
                    0 => x.push_str(d),
                    1 => x.insert_str(0, d),
                    2 => {
                        x.insert_str(0, d);
                        x.push_str(d)
                    }
                    _ => {
                        let mid = x.char_indices().nth(x.chars().count() / 2).map(|(i, _)| i).unwrap_or(0);
                        x.insert_str(mid, d)
                    }
                }
            }
        }
        if rng.chance(1, 6) {
            let pos = rng.below(v.len() as u64 + 1) as usize;
            v.insert(pos, "-".to_string());
        }
        if rng.chance(1, 8) {
            let pos = rng.below(v.len() as u64 + 1) as usize;
            v.insert(pos, String::new());
        }
    }
    // a presentation: order and duplicates are the caller's
    if rng.chance(1, 3) {
        let x = rng.pick(&v).clone();
        v.push(x);
    }
    rng.shuffle(&mut v);
    v
}

/// Byte streams that are not usable input.
pub fn unusable_streams() -> Vec<(String, Vec<u8>)> {
    vec![
        ("empty".into(), vec![]),
        ("stray-continuation-start".into(), vec![0x80, b'a', b'\n']),
        ("stray-continuation-middle".into(), b"ab\nc\x80d\nxyz\n".to_vec()),
        ("truncated-sequence-at-end".into(), vec![b'a', b'\n', 0xE2, 0x82]),
        ("overlong".into(), vec![b'a', 0xC0, 0xAF, b'\n']),
        ("encoded-surrogate".into(), vec![0xED, 0xA0, 0x80, b'\n']),
        ("latin1".into(), vec![b'c', b'a', b'f', 0xE9, b'\n']),
        ("invalid-after-1MiB".into(), {
            let mut v = "abcdefg\n".repeat(140_000).into_bytes();
            v.extend([b'c', b'a', b'f', 0xE9, b'\n', b'z', b'\n']);
            v
        }),
        ("invalid-after-64k".into(), {
            let mut v = "abcdefg\n".repeat(8200).into_bytes();
            v.extend([b'x', 0xC3, b'\n']);
            v
        }),
        ("invalid-after-8k".into(), {
            let mut v = "abcdefg\n".repeat(1100).into_bytes();
            v.extend([0xFF, b'\n']);
            v
        }),
    ]
}

/// Environment variables a user's shell may carry; none of them may change what grex prints.
pub fn random_env(rng: &mut Rng) -> Vec<(String, String)> {
    const POOL: &[(&str, &str)] = &[
        ("TERM", "dumb"),
        ("TERM", "xterm-256color"),
        ("NO_COLOR", "1"),
        ("CLICOLOR", "0"),
        ("CLICOLOR_FORCE", "1"),
        ("COLUMNS", "20"),
        ("LINES", "5"),
        ("LANG", "tr_TR.UTF-8"),
        ("LC_ALL", "C"),
        ("LC_CTYPE", "POSIX"),
        ("RUST_BACKTRACE", "1"),
        ("RUST_BACKTRACE", "full"),
        ("RUST_LOG", "trace"),
        ("HOME", "/nonexistent"),
        ("TZ", "Pacific/Kiritimati"),
        ("PATH", ""),
        ("TMPDIR", "/nonexistent"),
        ("CLAP_COLOR", "always"),
    ];
    let n = rng.range(1, 3);
    let mut v: Vec<(String, String)> = vec![];
    for _ in 0..n {
        let (k, val) = rng.pick(POOL);
        if !v.iter().any(|(k2, _)| k2 == k) {
            v.push((k.to_string(), val.to_string()));
        }
    }
    v
}

/// File names a user's file may have; the name must not matter. (No leading/trailing blanks: `-f -` trims the
/// path it reads, by design. No leading hyphen: clap would take it for an option.)
pub const FILE_NAMES: &[&str] = &["cases.txt", "line\nbreak.txt", "cr\rname.txt", "$HOME.txt", "~tilde.txt", "%41.txt", "back\\slash.txt", "with space.txt", "ünïcödé-日本.txt", "a,b;c.txt", "x=y&z.txt", "tab\tin name.txt", "quote'\"name.txt", "ends-with-quote'", "\"quoted\"", "'single'", ".hidden", "UPPER.TXT", "no-extension"];
