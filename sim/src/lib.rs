//! Shared machinery of the deterministic-simulation harness for grex (see /verif/DESIGN.md).
pub mod episode;
pub mod exec;
pub mod model;
pub mod penv;
pub mod prng;
pub mod sched;
pub mod simenv_case;
pub mod simenv_gen;
pub mod step;
pub mod workload;

use std::collections::BTreeSet;
use workload::{Op, RunSpec};

/// Structural validity of a run spec (the minimiser produces candidates that may not be valid).
pub fn validate(spec: &RunSpec) -> Result<(), String> {
    let mut sent = BTreeSet::new();
    let mut recvd = BTreeSet::new();
    for (ci, c) in spec.clients.iter().enumerate() {
        let mut live: BTreeSet<usize> = BTreeSet::new();
        for (oi, op) in c.ops.iter().enumerate() {
            let need = |live: &BTreeSet<usize>, s: &usize| {
                if live.contains(s) {
                    Ok(())
                } else {
                    Err(format!("client {} op {}: slot {} not live", ci, oi, s))
                }
            };
            match op {
                Op::New { slot, cases } => {
                    if cases.is_empty() {
                        return Err("empty case list".into());
                    }
                    live.insert(*slot);
                }
                Op::Set { slot, .. } | Op::FailSet { slot, .. } | Op::Build { slot } => need(&live, slot)?,
                Op::Clone { from, to } => {
                    need(&live, from)?;
                    live.insert(*to);
                }
                Op::Send { slot, mailbox } => {
                    need(&live, slot)?;
                    live.remove(slot);
                    if *mailbox >= spec.mailboxes || !sent.insert(*mailbox) {
                        return Err("bad mailbox in send".into());
                    }
                }
                Op::Recv { slot, mailbox } => {
                    if *mailbox >= spec.mailboxes || !recvd.insert(*mailbox) {
                        return Err("bad mailbox in recv".into());
                    }
                    live.insert(*slot);
                }
            }
        }
    }
    for p in &spec.preempts {
        if p.client >= spec.clients.len() || p.to >= spec.clients.len() || p.visit == 0 {
            return Err("preemption names a client that does not exist".into());
        }
    }
    if !recvd.is_subset(&sent) {
        return Err("recv without send".into());
    }
    Ok(())
}
