//! Generated workloads for the C10 simulation: universes (test-case set + settings),
//! per-client presentations and builder call histories, and their JSON form.

use crate::model::{Cfg, Setter};
use crate::prng::Rng;
use serde_json::{json, Value};
use std::collections::BTreeSet;

pub const PROFILES: &[&str] = &[
    "ab",
    "abc",
    "digit-shapes",
    "classes",
    "case",
    "runs",
    "marks",
    "astral",
    "mixed",
    "wide",
];

/// ~700 distinct letters (Latin Extended, Greek, Cyrillic, Armenian ranges): a process that works through this
/// profile meets far more distinct characters than any bounded per-process table is likely to hold.
fn wide_alphabet() -> &'static Vec<&'static str> {
    static WIDE: std::sync::OnceLock<Vec<&'static str>> = std::sync::OnceLock::new();
    WIDE.get_or_init(|| {
        let mut v: Vec<&'static str> = vec![];
        for range in [0x0100u32..0x0180, 0x0391..0x03A2, 0x03B1..0x03CA, 0x0410..0x0450, 0x0531..0x0557, 0x0561..0x0587, 0x1E00..0x1F00] {
            for cp in range {
                if let Some(c) = char::from_u32(cp) {
                    if c.is_alphabetic() {
                        v.push(Box::leak(c.to_string().into_boxed_str()));
                    }
                }
            }
        }
        v
    })
}

fn alphabet(profile: usize) -> Vec<&'static str> {
    match profile {
        9 => wide_alphabet().clone(),
        0 => vec!["a", "b"],
        1 => vec!["a", "b", "c"],
        2 => vec!["a", "b", "1", "2", "x", "y", "3"],
        3 => vec!["a", "1", " ", "_", "-", "\t", "Z", "9", ".", ","],
        4 => vec!["A", "a", "Ä", "ä", "İ", "ß", "Σ", "σ", "ς", "B", "b", "ǅ"],
        5 => vec!["a", "b", "x", "y"],
        6 => vec!["a", "\u{301}", "\\", "n", "é", "e", "\u{0}", "\u{200d}", "\u{b}"],
        7 => vec!["💩", "ü", "a", "♥", "𝔸", "€", "#", " "],
        _ => vec![
            "a", "b", "c", "1", "2", " ", "_", "A", "Ä", "ä", "x", "y", "\\", "\u{301}", "💩", "ü", ".", "*", "(", "|",
            "#", "\n", ",", ";", "=",
        ],
    }
}

/// Role alphabets for the grid shape: (heads, mids, tails).
fn grid_roles(rng: &mut Rng, profile: usize) -> (Vec<&'static str>, Vec<&'static str>, Vec<&'static str>) {
    let letters = vec!["a", "b", "c"];
    let tails = vec!["x", "y", "z"];
    match profile {
        2 => (letters, vec!["1", "2", "3", "4"], tails),
        3 => match rng.below(3) {
            0 => (letters, vec![" ", "\t", "\u{a0}"], tails),
            1 => (vec!["1", "2"], vec!["-", ".", "_", "+"], vec!["7", "8", "9"]),
            _ => (vec!["-", "+"], vec!["a", "b", "q", "_"], vec!["!", "?", "."]),
        },
        4 => (vec!["A", "a", "B", "b"], vec!["Ä", "ä", "Σ", "σ"], vec!["x", "X", "y"]),
        7 => (letters, vec!["ü", "♥", "💩", "€"], tails),
        _ => match rng.below(3) {
            0 => (letters, vec!["1", "2", "3", "4"], tails),
            1 => (letters, vec![" ", "\t", "_", "-"], vec!["x", "1", "y"]),
            _ => (vec!["a", "b", "1"], vec!["p", "q", "2", "3"], vec!["x", "y", "9"]),
        },
    }
}

/// One (set, settings) pair.
#[derive(Clone, Debug, PartialEq, Eq)]
pub struct Universe {
    pub set: BTreeSet<String>,
    pub cfg: Cfg,
}

fn word(rng: &mut Rng, alpha: &[&str], min: u64, max: u64) -> String {
    let n = rng.range(min, max);
    (0..n).map(|_| *rng.pick(alpha)).collect()
}

pub fn gen_set(rng: &mut Rng, profile: usize, max_size: u64) -> BTreeSet<String> {
    let alpha = alphabet(profile);
    let mut set = BTreeSet::new();
    let size = rng.range(1, max_size.max(1));
    if profile == 9 && rng.chance(1, 2) {
        // single letters from the wide alphabet: the result is one character class with many members
        // a run of neighbouring code points (printed as a range) plus scattered ones
        let k = rng.range(3, 6) as usize;
        let start = rng.below((alpha.len() - k) as u64) as usize;
        for a in &alpha[start..start + k] {
            set.insert(a.to_string());
        }
        let extra = rng.below(6);
        for _ in 0..extra {
            set.insert(rng.pick(&alpha).to_string());
        }
        return set;
    }
    let shape = if (profile == 4 || profile == 8) && rng.chance(1, 3) {
        6
    } else if rng.chance(1, 30) {
        7
    } else if rng.chance(1, 120) {
        8
    } else if rng.chance(1, 150) {
        9
    } else {
        rng.below(6)
    };
    match shape {
        // many: far more test cases than the other shapes (size-triggered code paths), kept cheap by a
        // tiny alphabet and short strings
        7 => {
            let n = *rng.pick(&[24u64, 40, 65, 100, 130, 24, 40, 65, 100, 130, 300, 600]);
            let small: Vec<&str> = alpha.iter().copied().take(if n > 200 { 4 } else { 3 }).collect();
            let mut tries = 0;
            while (set.len() as u64) < n && tries < n * 4 {
                tries += 1;
                set.insert(word(rng, &small, 1, 5));
            }
        }
        // bulk: a few hundred random six-letter words: a large automaton (hundreds of minimised states), so that
        // builds overlapping in time hold large intermediate structures at once
        9 => {
            const LETTERS: &[&str] = &[
                "a", "b", "c", "d", "e", "f", "g", "h", "i", "j", "k", "l", "m", "n", "o", "p", "q", "r", "s", "t", "u", "v", "w", "x", "y", "z",
            ];
            let n = *rng.pick(&[120u64, 200, 300]);
            let mut tries = 0;
            while (set.len() as u64) < n && tries < n * 3 {
                tries += 1;
                set.insert(word(rng, LETTERS, 6, 6));
            }
        }
        // long: one long test case (length-triggered code paths) next to a few short ones
        8 => {
            let n = *rng.pick(&[40u64, 70, 130]);
            let unit = word(rng, &alpha, 2, 5);
            let mut s = String::new();
            while (s.chars().count() as u64) < n {
                s.push_str(&unit);
                s.push_str(*rng.pick(&alpha));
            }
            set.insert(s);
            set.insert(word(rng, &alpha, 0, 3));
            set.insert(word(rng, &alpha, 1, 3));
        }
        // case variants: one base string spelled with members of the same case-folding group. Under
        // case-insensitive matching several of them lower-case to the same string, some keep their
        // spelling (the length-preserving guard), some are the lower-case form of others.
        6 => {
            const GROUPS: &[&[&str]] = &[
                &["A", "a"],
                &["Ä", "ä"],
                &["İ", "i\u{307}", "i", "I"],
                &["ß", "ẞ", "ss", "SS"],
                &["Σ", "σ", "ς"],
                &["ǅ", "ǆ", "Ǆ"],
                &["\u{212a}", "k", "K"],
                &["ſ", "s", "S"],
                &["x", "X"],
            ];
            let len = rng.range(1, 4) as usize;
            let base: Vec<usize> = (0..len).map(|_| rng.below(GROUPS.len() as u64) as usize).collect();
            let want = size.max(2);
            let mut tries = 0;
            while (set.len() as u64) < want && tries < 40 {
                tries += 1;
                let s: String = base.iter().map(|g| *rng.pick(GROUPS[*g])).collect();
                set.insert(s);
            }
        }
        // grid: head x mid x tail with single-character heads and mids and equal-length tails, where the
        // mids (or heads) belong to one convertible class. Same-length strings are ordered by their RAW
        // characters, but the trie is built from the CONVERTED labels, so equivalent trie states can
        // receive their out-edges in different orders: the situation in which the choice of a class
        // representative in the minimiser can matter.
        4 | 5 => {
            let (heads, mids, tails) = grid_roles(rng, profile);
            let nh = rng.range(1, 3.min(heads.len() as u64)) as usize;
            let nm = rng.range(2.min(mids.len() as u64), 3.min(mids.len() as u64)) as usize;
            let tl = rng.range(1, 2) as usize;
            let mut h = heads.clone();
            rng.shuffle(&mut h);
            h.truncate(nh);
            let mut m = mids.clone();
            rng.shuffle(&mut m);
            m.truncate(nm);
            let nt = rng.range(2, 3);
            let t: Vec<String> = (0..nt)
                .map(|_| (0..tl).map(|_| *rng.pick(&tails)).collect::<String>())
                .collect();
            if shape == 4 {
                let want = size.max(3);
                let mut tries = 0;
                while (set.len() as u64) < want && tries < 60 {
                    tries += 1;
                    set.insert(format!("{}{}{}", rng.pick(&h), rng.pick(&m), rng.pick(&t)));
                }
            } else {
                // "latin" variant: every head sees every mid once, but with its own assignment of tails
                // to mids. After class conversion the heads' subtrees hold the same language while the
                // (raw-sorted) insertion order of their edges differs from head to head.
                let hh = if h.len() < 2 { heads.clone() } else { h.clone() };
                for head in hh.iter().take(3) {
                    let mut tt: Vec<String> = t.clone();
                    rng.shuffle(&mut tt);
                    for (i, mid) in m.iter().enumerate() {
                        set.insert(format!("{}{}{}", head, mid, tt[i % tt.len()]));
                    }
                }
            }
        }
        // product of prefixes x middles x suffixes: shared prefixes and suffixes, so that
        // partition blocks hold several states and class conversion can make different
        // raw strings collide on converted labels
        0 | 1 => {
            let np = rng.range(1, 3);
            let nm = rng.range(1, 3);
            let ns = rng.range(1, 3);
            let pre: Vec<String> = (0..np).map(|_| word(rng, &alpha, 0, 2)).collect();
            let mid: Vec<String> = (0..nm).map(|_| word(rng, &alpha, 0, 2)).collect();
            let suf: Vec<String> = (0..ns).map(|_| word(rng, &alpha, 0, 3)).collect();
            let mut tries = 0;
            while (set.len() as u64) < size && tries < 40 {
                tries += 1;
                let s = format!("{}{}{}", rng.pick(&pre), rng.pick(&mid), rng.pick(&suf));
                set.insert(s);
            }
        }
        // runs: repeated substrings with varying counts
        2 => {
            let units: Vec<String> = (0..rng.range(1, 2)).map(|_| word(rng, &alpha, 1, 2)).collect();
            let heads: Vec<String> = (0..rng.range(1, 2)).map(|_| word(rng, &alpha, 0, 1)).collect();
            let mut tries = 0;
            while (set.len() as u64) < size && tries < 40 {
                tries += 1;
                let u = rng.pick(&units).clone();
                // mostly short runs; now and then a long one (a test case of 16+ graphemes made of repetitions)
                let k = if rng.chance(1, 5) { rng.range(6, 12) as usize } else { rng.range(1, 4) as usize };
                let tail = if rng.chance(1, 3) { word(rng, &alpha, 0, 1) } else { String::new() };
                set.insert(format!("{}{}{}", rng.pick(&heads), u.repeat(k), tail));
            }
        }
        // free strings
        _ => {
            let mut tries = 0;
            while (set.len() as u64) < size && tries < 40 {
                tries += 1;
                set.insert(word(rng, &alpha, 0, 6));
            }
        }
    }
    if set.is_empty() {
        set.insert(String::new());
    }
    set
}

pub fn gen_cfg(rng: &mut Rng, density_pct: u64) -> Cfg {
    let mut c = Cfg::default();
    let flag = |rng: &mut Rng| rng.below(100) < density_pct;
    c.digits = flag(rng);
    c.non_digits = flag(rng);
    c.spaces = flag(rng);
    c.non_spaces = flag(rng);
    c.words = flag(rng);
    c.non_words = flag(rng);
    c.repetitions = flag(rng);
    c.ignore_case = flag(rng);
    c.capture = flag(rng);
    c.escape = flag(rng);
    c.surrogates = c.escape && rng.chance(1, 2);
    c.verbose = flag(rng);
    c.no_start = flag(rng);
    c.no_end = flag(rng);
    c.colorize = rng.below(100) < density_pct / 3;
    if rng.chance(1, 2) {
        c.min_rep = *rng.pick(&[1u32, 2, 3, 4, 2, 1, u32::MAX]);
    }
    if rng.chance(1, 2) {
        c.min_len = *rng.pick(&[1u32, 2, 3, 4, 2, 1, u32::MAX]);
    }
    c
}

pub fn gen_universe(rng: &mut Rng, profile: usize, max_size: u64, density_pct: u64) -> Universe {
    Universe {
        set: gen_set(rng, profile, max_size),
        cfg: gen_cfg(rng, density_pct),
    }
}

/// A permutation of the set with 0..=3 duplicates inserted.
pub fn presentation(rng: &mut Rng, set: &BTreeSet<String>) -> Vec<String> {
    let mut v: Vec<String> = set.iter().cloned().collect();
    let dups = if rng.chance(1, 2) { rng.below(4) } else { 0 };
    for _ in 0..dups {
        let x = rng.pick(&v).clone();
        v.push(x);
    }
    // now and then a list that is long only because of its duplicates (size-triggered code paths see the
    // length of the list, the property only its set)
    if rng.chance(1, 25) {
        let target = *rng.pick(&[300usize, 520, 1100, 2100]);
        while v.len() < target {
            let x = rng.pick(&v).clone();
            v.push(x);
        }
    }
    rng.shuffle(&mut v);
    v
}

// ---------------------------------------------------------------------------------------
// Operations
// ---------------------------------------------------------------------------------------

#[derive(Clone, Debug, PartialEq, Eq)]
pub enum Op {
    /// `RegExpBuilder::from(&cases)` into `slot`
    New { slot: usize, cases: Vec<String> },
    Set { slot: usize, setter: Setter },
    /// a setter called with an illegal argument under `catch_unwind`: 0 = min repetitions, 1 = min substring length
    FailSet { slot: usize, which: u8 },
    Build { slot: usize },
    Clone { from: usize, to: usize },
    /// move the builder in `slot` into a mailbox (for another client thread to pick up)
    Send { slot: usize, mailbox: usize },
    /// take the builder out of a mailbox into `slot`; blocks until it is there
    Recv { slot: usize, mailbox: usize },
}

impl Op {
    pub fn to_json(&self) -> Value {
        match self {
            Op::New { slot, cases } => json!({"op": "new", "slot": slot, "cases": cases}),
            Op::Set { slot, setter } => json!({"op": "set", "slot": slot, "setter": setter.name()}),
            Op::FailSet { slot, which } => json!({"op": "failset", "slot": slot, "which": which}),
            Op::Build { slot } => json!({"op": "build", "slot": slot}),
            Op::Clone { from, to } => json!({"op": "clone", "from": from, "to": to}),
            Op::Send { slot, mailbox } => json!({"op": "send", "slot": slot, "mailbox": mailbox}),
            Op::Recv { slot, mailbox } => json!({"op": "recv", "slot": slot, "mailbox": mailbox}),
        }
    }

    pub fn from_json(v: &Value) -> Option<Op> {
        let u = |k: &str| v.get(k).and_then(|x| x.as_u64()).map(|x| x as usize);
        Some(match v.get("op")?.as_str()? {
            "new" => Op::New {
                slot: u("slot")?,
                cases: v
                    .get("cases")?
                    .as_array()?
                    .iter()
                    .filter_map(|x| x.as_str().map(|s| s.to_string()))
                    .collect(),
            },
            "set" => Op::Set {
                slot: u("slot")?,
                setter: Setter::parse(v.get("setter")?.as_str()?)?,
            },
            "failset" => Op::FailSet {
                slot: u("slot")?,
                which: u("which")? as u8,
            },
            "build" => Op::Build { slot: u("slot")? },
            "clone" => Op::Clone {
                from: u("from")?,
                to: u("to")?,
            },
            "send" => Op::Send {
                slot: u("slot")?,
                mailbox: u("mailbox")?,
            },
            "recv" => Op::Recv {
                slot: u("slot")?,
                mailbox: u("mailbox")?,
            },
            _ => return None,
        })
    }

    pub fn kind(&self) -> &'static str {
        match self {
            Op::New { .. } => "new",
            Op::Set { .. } => "set",
            Op::FailSet { .. } => "failset",
            Op::Build { .. } => "build",
            Op::Clone { .. } => "clone",
            Op::Send { .. } => "send",
            Op::Recv { .. } => "recv",
        }
    }
}

#[derive(Clone, Debug, PartialEq, Eq)]
pub struct ClientSpec {
    /// seed of the hash-key stream served to this client's thread (=> every HashMap/HashSet it creates)
    pub hash_seed: u64,
    pub ops: Vec<Op>,
}

#[derive(Clone, Debug, PartialEq, Eq)]
pub enum SchedSpec {
    /// decisions drawn from the run PRNG
    Policy { policy: String, switch_pct: u64, pct_depth: u64, seed: u64 },
    /// decisions taken from an explicit list (replay / minimisation). An entry that names a client that is
    /// not runnable, and every decision after the list is exhausted, falls back to "stay, else lowest runnable".
    List { decisions: Vec<usize> },
}

/// One instruction-granular preemption (see step.rs): at `client`'s `visit`-th call of the in-build hook (counted
/// from 1 over the whole run, all sites) single-step `steps` instructions of this executable's text and hand the
/// baton to `to` between two instructions; `steps == 0` hands over right at the hook.
#[derive(Clone, Debug, PartialEq, Eq)]
pub struct Preempt {
    pub client: usize,
    pub visit: u64,
    pub steps: u32,
    pub to: usize,
    /// how the position is reached: 0 by single-stepping `steps` instructions; 1 by a hardware breakpoint on the
    /// `steps`-th address of the stretch (recorded by a trace run, which is made first if there is none yet);
    /// 2 = the trace run itself (records up to `steps` arrivals after the visit, preempts nothing)
    pub via: u8,
}

#[derive(Clone, Debug, PartialEq, Eq)]
pub struct RunSpec {
    pub clients: Vec<ClientSpec>,
    /// in-build hook sites at which the scheduler may switch ("*" = all)
    pub sites: Vec<String>,
    pub sched: SchedSpec,
    pub mailboxes: usize,
    /// instruction-granular preemptions (empty in ordinary runs)
    pub preempts: Vec<Preempt>,
}

impl RunSpec {
    pub fn to_json(&self) -> Value {
        let sched = match &self.sched {
            SchedSpec::Policy { policy, switch_pct, pct_depth, seed } => {
                json!({"mode": "policy", "policy": policy, "switch_pct": switch_pct, "pct_depth": pct_depth, "seed": seed.to_string()})
            }
            SchedSpec::List { decisions } => json!({"mode": "list", "decisions": decisions}),
        };
        let mut v = json!({
            "clients": self.clients.iter().map(|c| json!({
                "hash_seed": c.hash_seed.to_string(),
                "ops": c.ops.iter().map(|o| o.to_json()).collect::<Vec<_>>(),
            })).collect::<Vec<_>>(),
            "sites": self.sites,
            "sched": sched,
            "mailboxes": self.mailboxes,
        });
        if !self.preempts.is_empty() {
            v["preempts"] = json!(self
                .preempts
                .iter()
                .map(|p| json!({"client": p.client, "hook_visit": p.visit, "instructions": p.steps, "to": p.to, "via": (["single-step", "breakpoint", "trace"][p.via.min(2) as usize])}))
                .collect::<Vec<_>>());
        }
        v
    }

    pub fn from_json(v: &Value) -> Option<RunSpec> {
        let clients = v
            .get("clients")?
            .as_array()?
            .iter()
            .map(|c| {
                Some(ClientSpec {
                    hash_seed: c.get("hash_seed")?.as_str()?.parse().ok()?,
                    ops: c.get("ops")?.as_array()?.iter().map(Op::from_json).collect::<Option<Vec<_>>>()?,
                })
            })
            .collect::<Option<Vec<_>>>()?;
        let sites = v
            .get("sites")?
            .as_array()?
            .iter()
            .filter_map(|x| x.as_str().map(|s| s.to_string()))
            .collect();
        let s = v.get("sched")?;
        let sched = match s.get("mode")?.as_str()? {
            "policy" => SchedSpec::Policy {
                policy: s.get("policy")?.as_str()?.to_string(),
                switch_pct: s.get("switch_pct")?.as_u64()?,
                pct_depth: s.get("pct_depth")?.as_u64()?,
                seed: s.get("seed")?.as_str()?.parse().ok()?,
            },
            _ => SchedSpec::List {
                decisions: s
                    .get("decisions")?
                    .as_array()?
                    .iter()
                    .filter_map(|x| x.as_u64().map(|x| x as usize))
                    .collect(),
            },
        };
        Some(RunSpec {
            clients,
            sites,
            sched,
            mailboxes: v.get("mailboxes").and_then(|x| x.as_u64()).unwrap_or(0) as usize,
            preempts: v
                .get("preempts")
                .and_then(|x| x.as_array())
                .map(|a| {
                    a.iter()
                        .filter_map(|p| {
                            Some(Preempt {
                                client: p.get("client")?.as_u64()? as usize,
                                visit: p.get("hook_visit")?.as_u64()?,
                                steps: p.get("instructions")?.as_u64()? as u32,
                                to: p.get("to")?.as_u64()? as usize,
                                via: match p.get("via").and_then(|x| x.as_str()) {
                                    Some("breakpoint") => 1,
                                    Some("trace") => 2,
                                    _ => 0,
                                },
                            })
                        })
                        .collect()
                })
                .unwrap_or_default(),
        })
    }
}

pub const SITES: &[&str] = &[
    "regexp.after_case",
    "regexp.after_sort",
    "regexp.after_clusters",
    "regexp.after_dfa",
    "regexp.after_expr",
    "regexp.fallback_unminimized",
    "regexp.fallback_literals",
    "regexp.rotation",
    "regexp.clusters_created",
    "regexp.classes_converted",
    "dfa.insert",
    "dfa.minimize_iter",
    "dfa.before_recreate",
    "expr.eliminate",
    "cluster.is_digit",
    "cluster.is_word",
    "cluster.is_space",
    "cluster.convert_repetitions",
    "format.alternation",
    "format.character_class",
    "format.concatenation",
    "format.literal",
    "format.repetition",
    "regexp.display",
    "grapheme.escape_non_ascii",
    "grapheme.escape_regexp_symbols",
];

pub const POLICIES: &[&str] = &["random", "round-robin", "run-to-completion", "pct"];

// ---------------------------------------------------------------------------------------
// History generation
// ---------------------------------------------------------------------------------------

/// Setters whose application, in any order and with any repeats, accumulates to `cfg`, ending in the
/// last-wins values of `cfg` for the three argument-taking setters. `extra_noise` adds redundant
/// repeats and overwritten earlier values.
pub fn setters_reaching(rng: &mut Rng, cfg: &Cfg, extra_noise: bool) -> Vec<Setter> {
    let mut v: Vec<Setter> = vec![];
    // flags: a setter per enabled flag; anchors may come through NoAnchors
    if cfg.digits {
        v.push(Setter::Digits)
    }
    if cfg.non_digits {
        v.push(Setter::NonDigits)
    }
    if cfg.spaces {
        v.push(Setter::Spaces)
    }
    if cfg.non_spaces {
        v.push(Setter::NonSpaces)
    }
    if cfg.words {
        v.push(Setter::Words)
    }
    if cfg.non_words {
        v.push(Setter::NonWords)
    }
    if cfg.repetitions {
        v.push(Setter::Repetitions)
    }
    if cfg.ignore_case {
        v.push(Setter::IgnoreCase)
    }
    if cfg.capture {
        v.push(Setter::Capture)
    }
    if cfg.verbose {
        v.push(Setter::Verbose)
    }
    if cfg.colorize {
        v.push(Setter::Colorize)
    }
    if cfg.no_start && cfg.no_end {
        match rng.below(3) {
            0 => v.push(Setter::NoAnchors),
            1 => {
                v.push(Setter::NoStart);
                v.push(Setter::NoEnd)
            }
            _ => {
                v.push(Setter::NoAnchors);
                v.push(if rng.chance(1, 2) { Setter::NoStart } else { Setter::NoEnd })
            }
        }
    } else if cfg.no_start {
        v.push(Setter::NoStart)
    } else if cfg.no_end {
        v.push(Setter::NoEnd)
    }
    if extra_noise {
        // redundant repeats of flag setters already present
        let n = rng.below(3);
        for _ in 0..n {
            if !v.is_empty() {
                let s = rng.pick(&v).clone();
                v.push(s);
            }
        }
    }
    rng.shuffle(&mut v);
    // argument-taking setters: earlier values may be overwritten; the LAST call must carry cfg's value.
    let mut tail: Vec<Setter> = vec![];
    if cfg.escape {
        tail.push(Setter::Escape(cfg.surrogates));
    }
    if cfg.min_rep != 1 || (extra_noise && rng.chance(1, 3)) {
        tail.push(Setter::MinRep(cfg.min_rep));
    }
    if cfg.min_len != 1 || (extra_noise && rng.chance(1, 3)) {
        tail.push(Setter::MinLen(cfg.min_len));
    }
    // insert each tail setter at a random position; then, with noise, an overwritten earlier call before it
    for t in tail {
        let pos = rng.below(v.len() as u64 + 1) as usize;
        v.insert(pos, t.clone());
        if extra_noise && rng.chance(1, 2) {
            let earlier = match t {
                Setter::Escape(b) => Setter::Escape(if rng.chance(2, 3) { !b } else { b }),
                Setter::MinRep(_) => Setter::MinRep(*rng.pick(&[1u32, 2, 3, 4, 7])),
                Setter::MinLen(_) => Setter::MinLen(*rng.pick(&[1u32, 2, 3, 4, 7])),
                other => other,
            };
            let p2 = rng.below(pos as u64 + 1) as usize;
            v.insert(p2, earlier);
        }
    }
    v
}

/// Generates one client's history on `u`: construct from a presentation, apply setters in a random
/// order with noise, with intermediate builds, clones, failed setters, and a final build.
/// `budget` caps the number of operations (a final build is always kept).
pub fn gen_history(rng: &mut Rng, u: &Universe, budget: usize) -> Vec<Op> {
    let mut ops = vec![Op::New {
        slot: 0,
        cases: presentation(rng, &u.set),
    }];
    let noise = rng.chance(1, 2);
    let setters = setters_reaching(rng, &u.cfg, noise);
    let mut live_slots = vec![0usize];
    let mut next_slot = 1usize;
    let extras_pct = *rng.pick(&[0u64, 10, 25, 50]);
    for s in setters {
        // interleaved events before the setter
        if rng.below(100) < extras_pct {
            match rng.below(6) {
                0 | 1 => ops.push(Op::Build { slot: *rng.pick(&live_slots) }),
                2 => {
                    let from = *rng.pick(&live_slots);
                    ops.push(Op::Clone { from, to: next_slot });
                    live_slots.push(next_slot);
                    next_slot += 1;
                }
                3 => ops.push(Op::FailSet {
                    slot: *rng.pick(&live_slots),
                    which: rng.below(2) as u8,
                }),
                4 => {
                    let sl = *rng.pick(&live_slots);
                    ops.push(Op::Build { slot: sl });
                    ops.push(Op::Build { slot: sl });
                }
                _ => {}
            }
        }
        // a setter must reach every live builder for all of them to arrive at cfg; apply to all live slots
        // (in random slot order) so that every clone ends at the same final configuration
        let mut order = live_slots.clone();
        rng.shuffle(&mut order);
        for sl in order {
            ops.push(Op::Set { slot: sl, setter: s.clone() });
        }
    }
    // final builds: every live slot, some twice
    let mut order = live_slots.clone();
    rng.shuffle(&mut order);
    for sl in order {
        ops.push(Op::Build { slot: sl });
        if rng.chance(1, 4) {
            ops.push(Op::Build { slot: sl });
        }
    }
    // Clones taken before a last-wins setter was overwritten still converge, because every later setter
    // is applied to all live slots. Trim to budget but keep the last build of slot 0.
    if ops.len() > budget {
        ops.truncate(budget.max(2) - 1);
        ops.push(Op::Build { slot: 0 });
    }
    ops
}
