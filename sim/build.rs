fn main() {
    // std resolves `getrandom` through dlsym at run time; the harness' own definition is only
    // found if it is in the executable's dynamic symbol table.
    println!("cargo:rustc-link-arg-bin=simhist=-Wl,--export-dynamic-symbol=getrandom");
    println!("cargo:rustc-link-arg-bin=simhist=-Wl,--export-dynamic-symbol=clock_gettime");
    println!("cargo:rerun-if-changed=build.rs");
}
